# Reference semantics of Light VerSec schemas, evaluated on the *source text* (own tokenizer and parser,
# own expansion, own matcher) - neither parser.py nor compiler.py nor checker.py of the library is used.
# Works on symbolic name components: comparisons go through the engine's branching primitive.
import random
import re
from symex.api import And, Or, Not, blist, bwrap, beq

TOKEN = re.compile(r'\s*(?:(//[^\n]*)|("(?:[^"\\]|\\.)*")|(#[A-Za-z_][A-Za-z_0-9]*)|(\$[A-Za-z_][A-Za-z_0-9]*)|'
                   r'([A-Za-z_][A-Za-z_0-9]*)|(<=)|([/:&|{}(),]))')


class LvsSyntaxError(Exception):
    pass


def tokenize(text):
    pos = 0
    out = []
    while True:
        m = TOKEN.match(text, pos)
        if not m:
            if text[pos:].strip():
                raise LvsSyntaxError('bad token at %r' % text[pos:pos + 20])
            break
        pos = m.end()
        if m.group(1):
            continue
        for kind, g in (('str', 2), ('rule', 3), ('fn', 4), ('id', 5), ('op', 6), ('op', 7)):
            if m.group(g):
                out.append((kind, m.group(g)))
                break
    return out


class Rule:
    def __init__(self, name):
        self.name = name
        self.items = []        # ('lit', str) | ('pat', name) | ('ref', rule)
        self.cons_sets = []    # list of list of (pat, [option])   option: ('lit', s) | ('pat', p) | ('fn', name, args)
        self.signers = []


def parse(text):
    toks = tokenize(text)
    i = 0
    rules = []

    def peek(k=0):
        return toks[i + k] if i + k < len(toks) else (None, None)

    while i < len(toks):
        if peek()[0] != 'rule' or peek(1) != ('op', ':'):
            raise LvsSyntaxError('definition expected at %r' % (toks[i],))
        r = Rule(toks[i][1])
        i += 2
        if peek() == ('op', '/'):
            i += 1
        while True:
            k, v = peek()
            if k == 'str':
                r.items.append(('lit', v[1:-1]))
            elif k == 'id':
                r.items.append(('pat', v))
            elif k == 'rule':
                r.items.append(('ref', v))
            else:
                raise LvsSyntaxError('component expected')
            i += 1
            if peek() == ('op', '/'):
                i += 1
                continue
            break
        if peek() == ('op', '&'):
            i += 1
            while True:
                if peek() != ('op', '{'):
                    raise LvsSyntaxError('{ expected')
                i += 1
                cs = []
                while True:
                    k, v = peek()
                    if k != 'id' or peek(1) != ('op', ':'):
                        raise LvsSyntaxError('constraint term expected')
                    i += 2
                    opts = []
                    while True:
                        k2, v2 = peek()
                        if k2 == 'str':
                            opts.append(('lit', v2[1:-1]))
                            i += 1
                        elif k2 == 'id':
                            opts.append(('pat', v2))
                            i += 1
                        elif k2 == 'fn':
                            i += 1
                            if peek() != ('op', '('):
                                raise LvsSyntaxError('( expected')
                            i += 1
                            args = []
                            while peek() != ('op', ')'):
                                k3, v3 = peek()
                                if k3 == 'str':
                                    args.append(('lit', v3[1:-1]))
                                elif k3 == 'id':
                                    args.append(('pat', v3))
                                elif (k3, v3) == ('op', ','):
                                    pass
                                else:
                                    raise LvsSyntaxError('bad fn arg')
                                i += 1
                            i += 1
                            opts.append(('fn', v2, args))
                        else:
                            raise LvsSyntaxError('option expected')
                        if peek() == ('op', '|'):
                            i += 1
                            continue
                        break
                    cs.append((v, opts))
                    if peek() == ('op', ','):
                        i += 1
                        continue
                    break
                if peek() != ('op', '}'):
                    raise LvsSyntaxError('} expected')
                i += 1
                r.cons_sets.append(cs)
                if peek() == ('op', '|'):
                    i += 1
                    continue
                break
        if peek() == ('op', '<='):
            i += 1
            while True:
                if peek()[0] != 'rule':
                    raise LvsSyntaxError('signer expected')
                r.signers.append(peek()[1])
                i += 1
                if peek() == ('op', '|'):
                    i += 1
                    continue
                break
        rules.append(r)
    return rules


def lit_component(s):
    """component bytes of a quoted literal (URI form of one component)"""
    from ndn.encoding import Component
    return bytes(Component.from_str(s))


class Chain:
    """one fully expanded alternative of a rule: items are ('lit', bytes) or ('var', id, named_name|None);
    cons: list of (var id, options) ; options as in Rule with 'lit' already converted to bytes"""
    def __init__(self, rule, items, cons, signers):
        self.rule = rule
        self.items = items
        self.cons = cons
        self.signers = signers


class Schema:
    def __init__(self, text):
        self.rules = parse(text)
        self.by_name = {}
        tmp = 0
        for r in self.rules:
            nm = r.name
            if nm[1] == '_':
                tmp += 1
                nm = '%s#%d' % (nm, tmp)       # temporary rules are distinct definitions (naming as documented)
            r.uid = nm
            self.by_name.setdefault(r.name, []).append(r)
        self._fresh = 0
        self._memo = {}
        self.origin = {}
        self.chains = {}
        for r in self.rules:
            self.chains.setdefault(r.uid, []).extend(self._expand(r, ()))

    def _expand(self, r, stack):
        """chains of one definition"""
        if r.name in stack:
            raise LvsSyntaxError('cyclic reference')
        sets = r.cons_sets or [[]]
        out = []
        for cs in sets:
            # own temp patterns: a fresh variable per occurrence; remember which ids belong to which temp name
            partial = [([], [], {})]      # (items, cons, temp occurrences of THIS rule: name -> [ids])
            for pos_i, it in enumerate(r.items):
                if it[0] == 'lit':
                    for p in partial:
                        p[0].append(('lit', lit_component(it[1])))
                elif it[0] == 'pat':
                    for p in partial:
                        if it[1][0] == '_':
                            self._fresh += 1
                            vid = ('t', self._fresh)
                            self.origin[vid] = (r.uid, pos_i)
                            p[0].append(('var', vid, None))
                            p[2].setdefault(it[1], []).append(vid)
                        else:
                            p[0].append(('var', ('n', it[1]), it[1]))
                else:
                    defs = self.by_name.get(it[1])
                    if not defs:
                        raise LvsSyntaxError('undefined rule ' + it[1])
                    if it[1][1] == '_':
                        raise LvsSyntaxError('reference to a temporary rule')
                    newp = []
                    for d in defs:
                        for sub in self._expand(d, stack + (r.name,)):
                            for p in partial:
                                items, cons = self._rename(sub)
                                newp.append((p[0] + items, p[1] + cons, {k: list(v) for k, v in p[2].items()}))
                    partial = newp
            for items, cons, temps in partial:
                cons = list(cons)
                for pat, opts in cs:
                    o2 = [(o[0], lit_component(o[1])) if o[0] == 'lit' else
                          (('fn', o[1], [('lit', lit_component(a[1])) if a[0] == 'lit' else a for a in o[2]])
                           if o[0] == 'fn' else o) for o in opts]
                    if pat[0] == '_':
                        for vid in temps.get(pat, []):
                            cons.append((vid, o2))
                    else:
                        cons.append((('n', pat), o2))
                ch = Chain(r.uid, list(items), cons, list(r.signers))
                # feature: one temporary-pattern occurrence of a referenced rule appears twice in this chain (the rule
                # is referenced more than once) and carries constraints
                org = [self.origin.get(it[1], it[1]) for it in items if it[0] == 'var' and it[1][0] == 't']
                constrained = set(self.origin.get(v, v) for v, _ in cons if v[0] == 't')
                ch.shared_temp = any(org.count(o) > 1 and o in constrained for o in set(org))
                out.append(ch)
        return out

    def _rename(self, sub):
        """copy of an inlined chain with its temporary variables made fresh for this occurrence"""
        mp = {}
        items = []
        for it in sub.items:
            if it[0] == 'var' and it[1][0] == 't':
                if it[1] not in mp:
                    self._fresh += 1
                    mp[it[1]] = ('t', self._fresh)
                    self.origin[mp[it[1]]] = self.origin.get(it[1], it[1])
                items.append(('var', mp[it[1]], None))
            else:
                items.append(it)
        cons = [((mp.get(v, v)), o) for v, o in sub.cons]
        return items, cons

    def max_len(self):
        return max([len(c.items) for cs in self.chains.values() for c in cs] or [0])

    def literals(self):
        s = set()
        for cs in self.chains.values():
            for c in cs:
                for it in c.items:
                    if it[0] == 'lit':
                        s.add(it[1])
        return sorted(s)


def comp_type(c):
    """type number of an encoded component (1-byte and 3-byte forms)"""
    l = blist(c)
    if l[0] <= 0xFC:
        return l[0]
    return l[1] * 256 + l[2]


def eval_option(opt, value, bound):
    """is the option satisfied by component `value` under the current bindings (name -> component)?"""
    if opt[0] == 'lit':
        return beq(value, opt[1])
    if opt[0] == 'pat':
        if opt[1] not in bound:
            return False
        return beq(value, bound[opt[1]])
    fn, args = opt[1], opt[2]
    vals = []
    for a in args:
        if a[0] == 'lit':
            vals.append(a[1])
        else:
            vals.append(bound.get(a[1]))
    if fn == '$eq':
        r = True
        for v in vals:
            r = And(r, False if v is None else beq(value, v))
        return r
    if fn == '$eq_type':
        r = True
        for v in vals:
            if v is None:
                raise UnboundFnArg()
            r = And(r, comp_type(v) == comp_type(value))
        return r
    if fn in USER_FNS:
        return USER_FNS[fn][1](value, vals)
    raise LvsSyntaxError('unknown function ' + fn)


class UnboundFnArg(Exception):
    pass


# user function used by generated schemas: first value byte is even (reference side / library side)
def _ref_even(value, vals):
    l = blist(value)
    if len(l) < 3:
        return False
    return (l[2] % 2) == 0


def _lib_even(c, args):
    # the same predicate written against the library's calling convention
    if len(c) < 3:
        return False
    return (c[2] % 2) == 0


USER_FNS = {'$even': (_lib_even, _ref_even)}


def match_chain(chain, name, pre):
    """does the name match this chain, given pre-bound named patterns `pre` (name -> component)?
    returns (formula_or_bool already decided through `if`, bindings of named patterns: name -> index or ('pre', comp))
    Decisions are taken with Python ``if`` so that the path condition fixes them; returns None when no match."""
    if len(name) != len(chain.items):
        return None
    bound = dict(pre)
    idx = {}
    tbound = set()
    for i, it in enumerate(chain.items):
        c = name[i]
        if it[0] == 'lit':
            if not beq(c, it[1]):
                return None
            continue
        vid, nm = it[1], it[2]
        first = True
        if nm is not None and nm in bound:
            if not beq(c, bound[nm]):
                return None
            first = nm in pre and nm not in idx and nm not in tbound
            if not first:
                continue
            tbound.add(nm)
        # constraints of this variable are checked where it is first met in this name
        for v, opts in chain.cons:
            if v != vid:
                continue
            ok = False
            for o in opts:
                if eval_option(o, c, bound):
                    ok = True
                    break
            if not ok:
                return None
        if nm is not None and nm not in bound:
            bound[nm] = c
            idx[nm] = i
    return bound, idx


def ref_match(schema, name, flags=None):
    """set of (rule uid, frozenset of (pattern name, index in name)) for every matching chain"""
    out = set()
    for uid, chains in schema.chains.items():
        for ch in chains:
            r = match_chain(ch, name, {})
            if r is not None:
                key = (uid, frozenset(r[1].items()))
                out.add(key)
                if flags is not None:
                    flags.setdefault(key, []).append(ch.shared_temp)
    return out


def ref_check(schema, pkt, key, info=None):
    """the signing relation of the statement"""
    for uid, chains in schema.chains.items():
        for ch in chains:
            r = match_chain(ch, pkt, {})
            if r is None:
                continue
            bound = r[0]
            for s in ch.signers:
                for d in schema.by_name.get(s, []):
                    for kc in schema.chains[d.uid]:
                        if match_chain(kc, key, bound) is not None:
                            if info is not None:
                                info['shared_temp'] = ch.shared_temp or kc.shared_temp
                            return True
    return False


# ---------------------------------------------------------------------------------------------
# catalogue
# ---------------------------------------------------------------------------------------------
HAND = {
    'same_rule_twice_temp': '#r: /_x & {_x: "a"|"b"}\n#s: /#r/#r\n',
    'same_rule_twice_named': '#r: /x/_y & {_y: "a"|"b"}\n#s: /#r/"m"/#r\n',
    'redefinition': '#r: /"a"/x\n#r: /"b"/x/y\n#s: /#r/"c" <= #r\n',
    'redef_ref_not_last': '#z: /#a/"x"\n#z: /"y"\n#a: /"k"/n\n#s: /#z/"c" <= #a\n',
    # a rule reference inherits name and constraints of the referenced rule, NOT its signers
    'ref_to_signed_rule': '#root: /"k"/_\n#site: /"a"/s <= #root\n#u: /#site/"u"/_ <= #adm\n#adm: /"m"/_ <= #root\n',
    # the same signer reached twice: listed twice, and through two rules ending on one node
    'dup_signers': '#k: /"k"/x\n#p: /"p"/x <= #k | #k\n#q: /"q"/x <= #k\n#q: /"q"/x <= #k\n',
    # a rule with several definitions referenced twice: each reference brings the constraints of ITS alternative
    'redef_referenced_twice': '#a: /"k"/x & {x: "a"}\n#a: /"m"/y & {y: "b"}\n#r: /#a/#a\n',
    'redef_referenced_twice_shared': '#c: /"k"/x & {x: "a"|"c"}\n#c: /"m"/x & {x: "b"|"c"}\n#u: /#c/#c\n',
    'redef_referenced_twice_temp': '#b: /_t/"k" & {_t: "a"}\n#b: /_t/"m" & {_t: "b"}\n#s: /#b/"x"/#b\n',
    # user-function arguments that are not bound when the constrained component is reached
    'eq_fn_unbound': '#r: /y/x & {y: $eq(x)}\n#key: /"K"/k & {k: $eq(owner)}\n#p1: /"p"/owner <= #key\n#p2: /"q"/e <= #key\n',
    'temp_rule': '#_t: /"a"/x\n#_t: /"b"\n#s: /"c"/x <= #k\n#k: /"k"/x\n',
    'multi_option_sets': '#r: /x/y & {x: "a"|"b", y: "c"} | {x: "c"}\n#k: /"k"/x\n#s: /#r/"z" <= #k\n',
    'pattern_option': '#r: /x/y/z & {z: x|"c"}\n',
    'later_pattern_option': '#r: /x/y & {x: y}\n',
    'eq_fn': '#r: /x/y & {y: $eq(x)}\n#s: /x/y & {y: $eq("a", x)}\n',
    'eq_fn_two_positions': '#r1: /a/_/b & {b: $eq(a)}\n#r2: /_/a/b & {b: $eq(a)}\n',
    'eq_type': '#r: /x/_v & {_v: $eq_type("v=0")}\n#s: /"a"/_v & {_v: $eq_type("a")}\n',
    'sign_shared_constrained': '#pkt: /"a"/x <= #key\n#key: /"k"/x & {x: "g"}\n',
    'sign_chain': '#a: /"a"/x/y <= #b\n#b: /"b"/x <= #c | #d\n#c: /"c"/_\n#d: /"d"/x/_z & {_z: "a"|"b"}\n',
    'redef_same_path': '#k1: /"k"/x\n#k2: /"j"/x\n#p: /"p"/x <= #k1\n#p: /"p"/x <= #k2\n#q: /"q"/x/y & {y: "a"} <= #k1\n'
                       '#q: /"q"/x/y & {y: "b"} <= #k2\n',
    'sign_alt_defs': '#p: /"p"/x <= #k\n#k: /"k"/x\n#k: /"j"/x/y & {y: x}\n',
    'inherit_add': '#site: /"a"/s\n#u: /#site/r & {r: "b"|"c", s: "a"} <= #site\n',
    'backtrack_over_bound': '#p: /"d"/site <= #k2\n#k1: /u/site/"a"\n#k2: /u/w/u\n',
    'backtrack_repeat': '#r1: /a/a\n#r2: /a/b/a\n#r3: /a/b/c & {c: a}\n',
    # pattern numbers with two digits (numbers are schema-global; every '_' takes a fresh one)
    'ten_named': '#log: /n1/n2/n3/n4/n5/n6/n7/n8/n9/n10 & {n10: "a"|"b"}\n',
    'ten_temps': '#log: /_/_/_/_/_/_/_/_/_/_z & {_z: "a"|"b"}\n',
    'ten_mixed': ('#log: /n1/n2/n3/n4/n5/n6/n7/n8/n9/n10/_/_ & {n10: "a"|"b"}\n#e: /n2/n1/n11/n10 & {n11: "c", n10: n1}\n'
                  '#aa: /n12/n1/_q/_/_/_/_/_/_/_/_r & {_r: "a", n12: "b"|"c"}\n'),
    # the same options once as separate constraints (all must hold) and once as alternatives of one constraint, on two
    # chains that leave the same node through the same pattern
    'and_vs_or_options': '#strict: /a/b/c/"s" & {c: a, c: b}\n#loose: /a/b/c/"l" & {c: a|b}\n',
    'or_vs_and_options': '#either: /a/b/c/"l" & {c: a|b}\n#strict: /a/b/c/"s" & {c: a, c: b}\n',
    'and_vs_or_redef': '#r: /k/v/"p" & {v: "a", v: k}\n#r: /k/v/"q" & {v: "a"|k}\n',
    # options of different kinds inside ONE constraint, in every order (literal / pattern / function)
    'mixed_options_lit_first': '#r: /"m"/a/b & {b: "c"|a}\n#s: /"n"/a/b & {b: "c"|$eq(a)|"b"}\n',
    'mixed_options_lit_last': '#r: /"m"/a/b & {b: a|"c"}\n#s: /"n"/a/b & {b: $eq(a)|"c"}\n#t: /"o"/a/b/c & {c: "a"|b|a}\n',
    'blog': ('#site: "a"/"b"\n#root: #site/#KEY\n#article: #site/"c"/cat/yr <= #author\n'
             '#author: #site/role/au/#KEY & { role: "d" } <= #admin\n#admin: #site/"e"/ad/#KEY <= #root\n#KEY: "K"/_/_\n'),
}


def test_file_schemas(repo):
    """the schema texts of tests/misc/light_versec_test.py (r-strings / plain triple-quoted strings named lvs*)"""
    import os
    p = os.path.join(repo, 'tests', 'misc', 'light_versec_test.py')
    try:
        src = open(p).read()
    except OSError:
        return {}
    out = {}
    for i, m in enumerate(re.finditer(r"r?'''(.*?)'''|r?\"\"\"(.*?)\"\"\"", src, re.S)):
        t = m.group(1) or m.group(2)
        if '#' in t and ':' in t:
            out['test%d' % i] = t
    return out


LITS = ['a', 'b', 'c']
NAMED = ['x', 'y', 'z']
TEMPS = ['_t', '_u']


WIDE_FILL = ['#w0: /"w"/n1/n2/n3/n4', '#w1: /"w"/"w"/n5/n6/n7/n8', '#w2: /"w"/"w"/"w"/n9/_/_/_',
             '#w3: /"w"/"w"/"w"/"w"/_/_/_/_']


def generate(rng, nrules=None, wide=False):
    """random well-formed schema text; ``wide``: preceded by filler rules that use up the one-digit pattern numbers"""
    n = nrules or rng.randint(2, 5)
    NAMED = ['n1', 'n2', 'x', 'y'] if wide else globals()['NAMED']
    names = []
    for i in range(n):
        nm = '#r%d' % i
        if i > 0 and rng.random() < 0.15:
            nm = names[rng.randrange(i)]           # redefinition
        elif rng.random() < 0.1:
            nm = '#_tmp'
        names.append(nm)
    lines = []
    pats_of = {}       # rule -> named patterns available (own + inherited)
    name_of = {}
    lens = {}
    for i in range(n):
        nm = names[i]
        items = []
        avail = []
        own_temps = []
        total = 0
        same_path = nm in name_of and rng.random() < 0.5       # another definition with the very same name pattern
        if same_path:
            items, avail, own_temps, total = [list(v) if isinstance(v, list) else v for v in name_of[nm]]
        for _ in range(0 if same_path else rng.randint(1, 3)):
            k = rng.random()
            refs = sorted(r for r in set(names[:i]) if r in pats_of and r != nm and r[1] != '_'
                          and lens.get(r, 9) + total <= 4)
            if k < 0.3:
                items.append('"%s"' % rng.choice(LITS))
                total += 1
            elif k < 0.6:
                p = rng.choice(NAMED)
                items.append(p)
                avail.append(p)
                total += 1
            elif k < 0.75:
                t = rng.choice(TEMPS)
                items.append(t)
                own_temps.append(t)
                total += 1
            elif refs:
                r = rng.choice(refs)
                items.append(r)
                if rng.random() < 0.3 and lens[r] * 2 + total <= 4:
                    items.append(r)
                    total += lens[r]
                avail.extend(pats_of[r])
                total += lens[r]
            else:
                items.append('"%s"' % rng.choice(LITS))
                total += 1
        name_of[nm] = (list(items), list(avail), list(own_temps), total)
        line = '%s: /%s' % (nm, '/'.join(items))
        cands = sorted(set(avail)) + sorted(set(own_temps))
        if cands and rng.random() < 0.7:
            sets = []
            for _ in range(rng.randint(1, 2)):
                terms = []
                for p in rng.sample(cands, min(len(cands), rng.randint(1, 2))):
                    opts = []
                    for _ in range(rng.randint(1, 2)):
                        k = rng.random()
                        others = [q for q in sorted(set(avail)) if q != p]
                        if k < 0.5 or not others:
                            opts.append('"%s"' % rng.choice(LITS))
                        elif k < 0.75:
                            opts.append(rng.choice(others))
                        elif k < 0.85:
                            opts.append('$eq(%s)' % rng.choice(others + ['"%s"' % rng.choice(LITS)]))
                        elif k < 0.93:
                            opts.append('$eq_type("%s")' % rng.choice(LITS + ['v=0']))
                        else:
                            opts.append('$even()')
                    terms.append('%s: %s' % (p, '|'.join(opts)))
                sets.append('{%s}' % ', '.join(terms))
            line += ' & ' + ' | '.join(sets)
        later = sorted(set(r for r in names[i + 1:] if r[1] != '_' and r not in names[:i + 1]))
        if later and rng.random() < 0.7:
            line += ' <= ' + ' | '.join(rng.sample(later, min(len(later), rng.randint(1, 2))))
        lines.append(line)
        if nm not in pats_of or True:
            pats_of[nm] = sorted(set(pats_of.get(nm, []) + avail))
            lens[nm] = max(lens.get(nm, 0), total)
    if wide:
        lines = WIDE_FILL + lines
    return '\n'.join(lines) + '\n'


def catalogue(tier, seed, repo):
    """name -> text of every schema used by C11-C13 (ill-formed or unsupported ones are filtered by the caller)"""
    out = {}
    for k, v in HAND.items():
        out['hand_' + k] = v
    for k, v in test_file_schemas(repo).items():
        out[k] = v
    n = 20 if tier == 'quick' else 400
    for i in range(n):
        rng = random.Random(seed * 7919 + i)
        out['gen%d' % i] = generate(rng, wide=(i % 5 == 4))
    return out
