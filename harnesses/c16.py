# C16 -- issued certificates are well-formed, correctly named and verifiable.
# Real code executed symbolically: security_v2.new_cert / self_sign / sign_req / derive_cert / parse_certificate,
# CertificateV2Value / CertificateV2SignatureInfo / ValidityPeriod codec (IncludeBase inheritance), DataPacketValue
# encode with signature shrink, the shipped signer classes on ideal primitives, parse_data, verify_* functions.
import datetime as _dt
from symex import crypto
from symex.api import And, Or, Not, Implies, Iff, blist, bwrap, beq, exc_sig, as_int, tobytes
from . import env, ref

PROPERTY = 'C16'
INFO = {
    'explanation': 'C16: certificates are produced by the real functions with a symbolic real signature length, symbolic '
                   'public-key bytes / lengths that move the hand-built outer TLV across 253 with and without shrink, '
                   'symbolic key-name bytes and a symbolic clock reading for the version component; the result is read by '
                   'the reference reader (one exact Data element, name, content, content type, validity strings, key '
                   'locator), verified by the real verify_* code on the ideal primitives, and parsed by parse_certificate '
                   'and parse_data.',
    'bounds': {'quick': {'signature_length': 'r in [32,72] (ECDSA issuer; the ideal model needs 32 bytes to bind the message; C01 covers [0,72] for the encoding), fixed for RSA / Ed25519 / HMAC / DigestSha256',
                         'public_key': '0..3 symbolic bytes; concrete lengths 32, 91, 150..260 step, 294',
                         'key_name': '1..3 components, 1 symbolic byte each; six shapes /<identity>/KEY/<id> whose identity itself contains KEY components', 'clock': '[0,2^64)',
                         'dates': '6 concrete instants incl. leap / epoch boundaries + every instant pair within three days of the year boundaries 2020/21, 2024/25, 2026/27 (thorough: 2018..2033, 1999, 2099); formatting is C code'}},
    'outside': ['date arithmetic as a solver variable (strftime / timedelta are C code)', 'real DER'],
    'assumptions': ['ideal signature model; datetime.now() replaced by a chosen concrete instant'],
}
MANDATORY = {'cert': ['cert-wellformed', 'cert-verifies']}

DATES = [(1970, 1, 1, 0, 0, 0), (1999, 12, 31, 23, 59, 59), (2024, 2, 29, 12, 0, 0), (2038, 1, 19, 3, 14, 8),
         (2100, 3, 1, 0, 0, 0), (9999, 12, 31, 23, 59, 59)]


def boundary_dates(tier):
    """instants within three days of a year boundary (ISO week-year, leap years, century) - concrete: strftime is C code"""
    years = (2020, 2024, 2026) if tier == 'quick' else tuple(range(2018, 2033)) + (1999, 2099)
    out = []
    for y in years:
        for d in (29, 30, 31):
            out.append((y, 12, d, 23, 59, 59))
        for d in (1, 2, 3):
            out.append((y + 1, 1, d, 0, 0, 0))
    return out


def fmt(d):
    return ('%04d%02d%02dT%02d%02d%02d' % (d.year, d.month, d.day, d.hour, d.minute, d.second)).encode()


def h_cert(eng, case):
    # the process time zone is part of the environment: instants handed in as naive datetimes mean what they say in
    # every zone (fixed-offset POSIX zones: no tz database needed)
    import os
    import time
    tz = case.get('tz')
    if tz:
        old = os.environ.get('TZ')
        os.environ['TZ'] = tz
        time.tzset()
    try:
        return _h_cert(eng, case)
    finally:
        if tz:
            if old is None:
                os.environ.pop('TZ', None)
            else:
                os.environ['TZ'] = old
            time.tzset()


def _h_cert(eng, case):
    import ndn.encoding as enc
    from ndn.app_support import security_v2 as sv
    from ndn.encoding import Component, Name
    from ndn.security.validator import known_key_validator as kv
    env.set_clock(lambda: eng.int('clock', 0, 2 ** 64 - 1))
    kind = case['signer']
    signer = env.make_signer(eng, kind, rmin=max(32, case.get('rmin', 0)),    # < 32 bytes never verifies in the ideal model
                             key_name='/placeholder/KEY/0' if case.get('relocate') else None)
    if case.get('relocate') and kind not in ('digest', 'null'):
        # the key locator is (re)configured after the signer was constructed - e.g. set to the CA's own certificate name
        # once that exists: what counts is the configuration at the moment of issuing
        if case['relocate'] == 'assign':
            signer.key_locator_name = env.KEY_NAME
        else:
            signer.key_locator_name = Name.from_str(env.KEY_NAME)
        if case.get('reuse'):
            pass
    if case.get('other_signer'):
        # another signer object of the same class, for another key and key locator, is created afterwards (a CA and a
        # subject live in one process): the issuing signer keeps its own configuration
        saved_len = crypto.SIG_LEN
        env.make_signer(eng, kind, key_ident='o', key_name='/other/KEY/9')
        crypto.SIG_LEN = saved_len
    ncomp = case['name_comps']
    key_name = [bwrap([8, 1] + blist(eng.bytes('kn%d' % i, 1))) for i in range(ncomp)]
    if case.get('key_shape'):
        # realistic key names /<identity>/KEY/<key-id>, also with identities that contain a KEY component themselves
        key_name = [Component.from_str('KEY') if s == 'KEY' else bwrap([8, 1] + blist(eng.bytes('kn%d' % i, 1)))
                    for i, s in enumerate(case['key_shape'])]
        ncomp = len(key_name)
    rep = case.get('rep')
    if rep:
        # other accepted representations of components (a name taken from a parsed packet is a list of memoryviews)
        from symex.api import mview
        from symex.core import s_bytearray
        conv = mview if rep == 'mv' else s_bytearray
        key_name_in = [conv(c) for c in key_name]
        if rep == 'mv' and case.get('tuple'):
            key_name_in = tuple(key_name_in)
    else:
        conv = lambda x: x
        key_name_in = key_name
    pk = case['pubkey']
    el = pk == 'elastic'
    if el:
        # the LENGTH of the public key is a solver variable (opaque content; symex/elastic.py)
        pub, publen = eng.elastic('pub', 0, case['max'])
    elif isinstance(pk, int) and pk <= 3:
        pub = eng.bytes('pub', pk)
    else:
        pub = bytes((i * 7 + 1) & 0xFF for i in range(pk))
    mode = case['mode']
    if case.get('reuse'):
        # the issuing signer has signed another certificate before
        sv.new_cert([Component.from_str('warm'), Component.from_str('KEY'), Component.from_str('0')],
                    Component.from_str('x'), b'earlier key', signer, _dt.datetime(2020, 1, 1), _dt.datetime(2021, 1, 1))
    if case.get('dates'):
        d0, d1 = _dt.datetime(*case['dates'][0]), _dt.datetime(*case['dates'][1])
    else:
        d0 = _dt.datetime(*DATES[case['d0']])
        d1 = _dt.datetime(*DATES[case['d1']])
    try:
        if mode == 'derive_text':
            itext = case.get('issuer_text', 'issuer1')          # a text issuer id is one URI component
            name, wire = sv.derive_cert(key_name_in, itext, pub, signer, d0, case['secs'])
            issuer = bytes(Component.from_str(itext))
            exp_nb, exp_na = fmt(d0), fmt(d0 + _dt.timedelta(seconds=case['secs']))
        elif mode == 'derive_comp':
            ic = bwrap([8, 2] + blist(eng.bytes('issuer', 2)))
            name, wire = sv.derive_cert(key_name_in, conv(ic), pub, signer, d0, case['secs'])
            issuer = ic
            exp_nb, exp_na = fmt(d0), fmt(d0 + _dt.timedelta(seconds=case['secs']))
        elif mode == 'new':
            name, wire = sv.new_cert(key_name_in, conv(Component.from_str('x')), pub, signer, d0, d1)
            issuer = bytes(Component.from_str('x'))
            exp_nb, exp_na = fmt(d0), fmt(d1)
        else:
            # self_sign / sign_req read the wall clock: replace datetime.now by the chosen instant
            now = d0

            class FakeDT(_dt.datetime):
                @classmethod
                def now(cls, tz=None):
                    return now
            sv.datetime = FakeDT
            try:
                if mode == 'self':
                    name, wire = sv.self_sign(key_name_in, pub, signer)
                    issuer = bytes(Component.from_str('self'))
                    exp_nb, exp_na = b'19700101T000000', fmt(now.replace(year=now.year + 20))
                else:
                    name, wire = sv.sign_req(key_name_in, pub, signer)
                    issuer = bytes(Component.from_str('cert-request'))
                    exp_nb, exp_na = fmt(now), fmt(now + _dt.timedelta(days=10))
            finally:
                sv.datetime = _dt.datetime
    except Exception as e:
        eng.fail('cert-produced', exc_sig(e), repr(e)[:150])
        return
    if el:
        from .c01 import elastic_split
        w = elastic_split(eng, wire, 6, 0x15, pub, 'cert-wellformed')
        if w is None:
            return
        pub_seen = b''                      # the surrogate packet carries an empty Content in place of the key
    else:
        w = blist(wire)
        pub_seen = pub
    try:
        rv = ref.parse_cert(w)
        ok, tree = ref.strict_tree(w, 0, len(w), [('data', 6, 'model', (ref.CERT, False))])
    except ref.RefReject as r:
        eng.fail('cert-wellformed', 'ref-reject:' + r.args[0])
        return
    eng.check(ok, 'cert-wellformed')
    rn = rv['name']
    eng.check(len(rn) == ncomp + 2, 'cert-name', {'len': len(rn)})
    if len(rn) == ncomp + 2:
        eng.check(env.names_equal(rn[:ncomp], key_name), 'cert-name', sig='key-name-part')
        eng.check(beq(rn[ncomp], issuer), 'cert-name', sig='issuer-id')
        ver = rn[ncomp + 1]
        eng.check(ver[0] == 0x36, 'cert-name', sig='version-component-type')
        v = 0
        for x in ver[2:]:
            v = v * 256 + x
        clock_reads = [eng.inputs[k] for k in sorted(eng.inputs) if k.startswith('clock#')] if eng.is_sym() else None
        # the version is the clock reading handed out by the stub (exactly one read)
        eng.observe('version', v)
    eng.check(env.names_equal(name, rn), 'returned-name-is-the-certificate-name')
    eng.check('content' in rv and beq(rv['content'], pub_seen), 'cert-content-is-the-key')
    mi = rv.get('meta_info') or {}
    eng.check(mi.get('content_type') == 2, 'cert-content-type-key')
    si = rv.get('signature_info') or {}
    vp = si.get('validity_period') or {}
    eng.check(beq(vp.get('not_before'), exp_nb), 'cert-validity', {'got': repr(bytes(vp.get('not_before') or b''))}, sig='not-before')
    eng.check(beq(vp.get('not_after'), exp_na), 'cert-validity', {'got': repr(bytes(vp.get('not_after') or b''))}, sig='not-after')
    eng.check(si.get('signature_type') == env.SIG_TYPE[kind], 'cert-signature-type')
    if kind not in ('digest', 'null'):
        kl = (si.get('key_locator') or {}).get('name')
        eng.check(kl is not None and env.names_equal(kl, Name.from_str(env.KEY_NAME)), 'cert-key-locator')
    # verification with the real verify_* code (ideal primitives) through parse_data
    try:
        n2, m2, c2, sig = enc.parse_data(wire)
        cert = sv.parse_certificate(wire)
    except Exception as e:
        eng.fail('cert-parses', exc_sig(e), repr(e)[:150])
        return
    same = (lambda c: c is not None and (c == pub)) if el else (lambda c: beq(c, pub))
    eng.check(And(env.names_equal(n2, rn), same(c2)), 'cert-parses')
    eng.check(And(env.names_equal(cert.name, rn), same(cert.content)), 'cert-parses')
    eng.check(beq(cert.signature_info.validity_period.not_before, exp_nb) and
              beq(cert.signature_info.validity_period.not_after, exp_na), 'cert-parses', sig='validity-after-parse')
    try:
        if kind in env.ECDSA_CURVES:
            okv = kv.verify_ecdsa(crypto.ECC.import_key(crypto.make_key('ecc', 'k', env.ECDSA_CURVES[kind])), sig)
        elif kind == 'rsa':
            okv = kv.verify_rsa(crypto.RSA.import_key(crypto.make_key('rsa', 'k')), sig)
        elif kind == 'ed25519':
            okv = kv.verify_ed25519(crypto.ECC.import_key(crypto.make_key('ed', 'k')), sig)
        elif kind == 'hmac':
            okv = kv.verify_hmac(b'hmac-key-k', sig)
        else:
            okv = True
    except Exception as e:
        eng.fail('cert-verifies', exc_sig(e))
        return
    eng.check(okv is True, 'cert-verifies', {'verify': repr(okv)})
    if el:
        from symex.core import s_len
        eng.observe('key_octets', publen)
        eng.observe('cert_octets', s_len(wire))
        eng.reach('end')
        return
    regions = []
    if 'sigvalue' in rv['#region']:
        _, vs, ve = rv['#region']['sigvalue']
        regions.append((vs, ve))
    eng.observe('wire', env.mask(wire, regions))
    eng.reach('end')


HARNESSES = {'cert': h_cert}


def cases(tier, seed):
    cs = []
    quick = tier == 'quick'
    base = {'name_comps': 2, 'pubkey': 2, 'mode': 'new', 'd0': 0, 'd1': 2, 'secs': 86400, 'signer': 'ecdsa'}
    for kind in ('ecdsa', 'rsa', 'ed25519', 'hmac', 'digest'):
        for mode in ('new', 'derive_text', 'derive_comp', 'self', 'sign_req'):
            cs.append(('cert', dict(base, signer=kind, mode=mode, rmin=60 if kind == 'ecdsa' and mode != 'new' else 0),
                       {'weight': 20}))
    for kind in ('ecdsa', 'rsa', 'ed25519', 'hmac'):
        cs.append(('cert', dict(base, signer=kind, mode='new', reuse=True, rmin=66), {'weight': 10}))
        cs.append(('cert', dict(base, signer=kind, mode='derive_text', other_signer=True, rmin=66), {'weight': 10}))
    # every EC key size as issuer (the signature type stays SignatureSha256WithEcdsa)
    for kind, rmin in (('ecdsa224', 60), ('ecdsa384', 100), ('ecdsa521', 136)):
        for mode in ('new', 'derive_text', 'self', 'sign_req'):
            cs.append(('cert', dict(base, signer=kind, mode=mode, rmin=rmin), {'weight': 20}))
    for nc in (1, 3):
        cs.append(('cert', dict(base, name_comps=nc, rmin=68), {'weight': 5}))
    for pk in (0, 1, 3):
        cs.append(('cert', dict(base, pubkey=pk, rmin=66), {'weight': 5}))
    # concrete key lengths: the outer TLV crosses 253 with and without shrink
    lens = [32, 91, 294] + list(range(120, 200, 4 if quick else 1))
    for pk in lens:
        cs.append(('cert', dict(base, pubkey=pk, signer='ecdsa'), {'weight': 40}))
        cs.append(('cert', dict(base, pubkey=pk, signer='ed25519'), {'weight': 2}))
    for d0 in range(len(DATES)):
        for mode in ('self', 'sign_req', 'derive_text'):
            for secs in ((1, 86400 * 366) if mode == 'derive_text' else (0,)):
                if DATES[d0][0] == 9999 and mode != 'new':
                    continue
                cs.append(('cert', dict(base, mode=mode, d0=d0, secs=secs, signer='ed25519'), {'weight': 2}))
        for d1 in range(len(DATES)):
            cs.append(('cert', dict(base, mode='new', d0=d0, d1=d1, signer='hmac'), {'weight': 2}))
    for shape in (['s', 'KEY', 's'], ['s', 's', 'KEY', 's'], ['s', 'KEY', 's', 'KEY', 's'], ['KEY', 's', 'KEY', 's'],
                  ['KEY', 'KEY', 'KEY', 's'], ['s', 'KEY', 'KEY', 's', 's']):
        for mode in ('new', 'derive_text', 'derive_comp', 'self', 'sign_req'):
            cs.append(('cert', dict(base, mode=mode, key_shape=shape, signer='hmac'), {'weight': 3}))
    # public key of solver-chosen LENGTH (elastic buffer): every key size at once
    for kind, rmin in (('ecdsa', 69), ('hmac', 0), ('rsa', 0), ('ed25519', 0), ('digest', 0)) if quick else \
            (('ecdsa', 32), ('hmac', 0), ('rsa', 0), ('ed25519', 0), ('digest', 0), ('ecdsa384', 100)):
        for mode in ('new', 'derive_text') if quick else ('new', 'derive_text', 'derive_comp', 'self', 'sign_req'):
            cs.append(('cert', dict(base, pubkey='elastic', max=70000 if quick else 2 ** 20, signer=kind, mode=mode,
                                    rmin=rmin), {'weight': 30}))
    for itext in ('CA%2D1', 'Root%20CA', '32=site', 'v=7', 'seg=0', '8=a', '%00', 'a.b~c-d_e'):
        cs.append(('cert', dict(base, signer='hmac', mode='derive_text', issuer_text=itext), {'weight': 2}))
    for kind in ('ecdsa', 'rsa', 'ed25519', 'hmac'):
        for how in ('assign', 'assign-list'):
            cs.append(('cert', dict(base, signer=kind, mode='new', relocate=how, rmin=70), {'weight': 5}))
            cs.append(('cert', dict(base, signer=kind, mode='derive_text', relocate=how, reuse=True, rmin=70), {'weight': 5}))
    # the same with the process in another time zone (east and west of Greenwich, across the date line of the instants)
    for tz in ('JST-9', 'PST8', 'NPT-5:45'):
        for mode in ('new', 'derive_text', 'derive_comp', 'self', 'sign_req'):
            cs.append(('cert', dict(base, mode=mode, tz=tz, signer='hmac', d0=1, d1=3), {'weight': 3}))
        bd = boundary_dates(tier)
        for i in range(0, len(bd) - 1, 4):
            cs.append(('cert', dict(base, mode='new', tz=tz, dates=[bd[i], bd[i + 1]], signer='hmac'), {'weight': 2}))
    # components handed over as memoryview / bytearray (e.g. taken from a parsed certificate name)
    for rep in ('mv', 'ba'):
        for mode in ('new', 'derive_text', 'derive_comp', 'self', 'sign_req'):
            cs.append(('cert', dict(base, mode=mode, rep=rep, signer='hmac'), {'weight': 3}))
            cs.append(('cert', dict(base, mode=mode, rep=rep, signer='ecdsa', rmin=70,
                                    key_shape=['s', 'KEY', 's']), {'weight': 3}))
    cs.append(('cert', dict(base, mode='derive_comp', rep='mv', tuple=True, signer='hmac'), {'weight': 3}))
    # year boundaries: start and end instants on both sides
    bd = boundary_dates(tier)
    for i in range(0, len(bd) - 1):
        cs.append(('cert', dict(base, mode='new', dates=[bd[i], bd[i + 1]], signer='hmac'), {'weight': 2}))
        if i % 3 == 0:
            cs.append(('cert', dict(base, mode='derive_comp', dates=[bd[i], bd[i]], secs=86400 * 2, signer='hmac'), {'weight': 2}))
    return cs
