# C13 -- ill-formed schemas and models are rejected; accepted models always terminate.
# Real code executed symbolically (one corrupted model field is a solver variable): Checker.__init__,
# Checker._sanity_check (dfs), compiler.top_order, Checker.match / _match on an accepted model, LvsModel TLV codec
# (Checker.save / Checker.load).  compile_lvs runs concretely on the (ill-formed) schema texts.
import copy
import os
from symex.api import And, Or, Not, blist, bwrap, beq, exc_sig, as_int
from symex.core import SInt
from . import env, lvsref
from .c11 import load_schema, user_fns, sym_name

PROPERTY = 'C13'
INFO = {
    'explanation': 'C13 (binary models, solver-decided): for every compiled model of the catalogue and every field '
                   'position (version, start id, node id, parent, edge destination, edge tag, signer id, option shape) that '
                   'one field is replaced by a solver variable in [0,2^64) or made absent; Checker(model) must raise '
                   'LvsModelError iff the documented sanity rules (docs/src/lvs/binary-format.rst), transcribed '
                   'independently, are broken, must never raise another exception class for a broken rule, and queries '
                   'on accepted models must terminate.  (schema texts, concrete, reported separately): one injected '
                   'static error of each kind per catalogue schema - cyclic signing also through every existing rule and through a key that already signs another rule - must raise SemanticError; error-free schemas pass.',
    'bounds': {'quick': {'models': 'hand-written shapes + test-file schemas + 20 generated (compiled concretely)',
                         'corruption': 'one field at a time, all positions, value symbolic in [0,2^64) or absent',
                         'query': 'match() on a symbolic name of length <= L+1 within a 2 s budget'},
               'thorough': {'models': '+ 400 generated'}},
    'outside': ['two simultaneous corruptions', 'ill-formed schema TEXTS are concrete programs: enumerated, not '
                'solver-quantified'],
    'assumptions': ['sanity rules as listed in binary-format.rst; cyclic signing among nodes is not one of the documented '
                    'model rules (either verdict is admitted there)'],
}
MANDATORY = {'model': ['rejects-iff-rule-broken'], 'text': ['ill-formed-schema-rejected', 'compiler-accepts-catalogue-schema']}


class _Budget(Exception):
    pass


def _with_budget(fn, budget_lines):
    """run fn(); raise _Budget if Checker._match executes more than budget_lines source lines (a step budget:
    wall-clock limits are meaningless under symbolic execution)"""
    import sys
    from ndn.app_support.light_versec.checker import Checker
    code = Checker._match.__code__
    cnt = [0]

    def local(frame, event, arg):
        if event == 'line':
            cnt[0] += 1
            if cnt[0] > budget_lines:
                raise _Budget()
        return local

    def glob(frame, event, arg):
        if frame.f_code is code:
            return local
        return None
    old = sys.gettrace()
    sys.settrace(glob)
    try:
        return fn()
    finally:
        sys.settrace(old)


def positions(model):
    """all single-field corruption sites of a compiled model"""
    out = [('version',), ('start_id',), ('named_pattern_cnt',)]
    for i, n in enumerate(model.nodes):
        out.append(('node', i, 'id'))
        out.append(('node', i, 'parent'))
        for j, e in enumerate(n.v_edges):
            out.append(('node', i, 'v_dest', j))
        for j, e in enumerate(n.p_edges):
            out.append(('node', i, 'p_dest', j))
            out.append(('node', i, 'p_tag', j))
            for a, cs in enumerate(e.cons_sets):
                for b, op in enumerate(cs.options):
                    out.append(('node', i, 'opt', j, a, b))
        for j, s in enumerate(n.sign_cons):
            out.append(('node', i, 'sign', j))
    return out


def ref_sane(model):
    """the documented sanity rules; values may be symbolic (decisions through ``if``)"""
    from ndn.app_support.light_versec import binary as bny
    if model.version is None or not (bny.MIN_SUPPORTED_VERSION <= model.version <= bny.VERSION):
        return False, 'version'
    n = len(model.nodes)
    if model.start_id is None or model.start_id < 0 or model.start_id >= n:
        return False, 'start-id'
    start = as_int(model.start_id)
    # only the part reachable from the start node is subject to the rules the loader is documented to check
    seen = set()
    stack = [(start, None)]
    budget = 4 * n + 8
    while stack:
        budget -= 1
        if budget < 0:
            return False, 'parent-tree'       # an edge leads back into the visited part: not a tree
        cur, par = stack.pop()
        node = model.nodes[cur]
        if node.id is None or node.id != cur:
            return False, 'node-id'
        if par is not None:
            if node.parent is None or node.parent != par:
                return False, 'parent-tree'
        seen.add(cur)
        for e in list(node.v_edges) + list(node.p_edges):
            if e.dest is None or e.dest < 0 or e.dest >= n:
                return False, 'edge-destination'
            stack.append((as_int(e.dest), cur))
        for e in node.v_edges:
            if not e.value:
                return False, 'edge-shape'
        for e in node.p_edges:
            if e.tag is None:
                return False, 'edge-shape'
            for cs in e.cons_sets:
                for op in cs.options:
                    cnt = [bool(op.value), op.tag is not None, op.fn is not None].count(True)
                    if cnt != 1:
                        return False, 'option-shape'
                    if op.fn is not None and not op.fn.fn_id:
                        return False, 'option-shape'
        for s in node.sign_cons:
            if s is None or s < 0 or s >= n:
                return False, 'signer-id'
    return True, None


def corrupt(eng, model, pos, mode):
    """mode: 'sym' (fresh 64-bit value), 'absent' (None); for options: presence subset chosen by the engine"""
    from ndn.app_support.light_versec import binary as bny
    m = copy.deepcopy(model)
    val = None if mode == 'absent' else eng.int('field', 0, 2 ** 64 - 1)
    if pos[0] == 'version':
        m.version = val
    elif pos[0] == 'start_id':
        m.start_id = val
    elif pos[0] == 'named_pattern_cnt':
        m.named_pattern_cnt = val
    else:
        node = m.nodes[pos[1]]
        k = pos[2]
        if k == 'id':
            node.id = val
        elif k == 'parent':
            node.parent = val
        elif k == 'v_dest':
            node.v_edges[pos[3]].dest = val
        elif k == 'p_dest':
            node.p_edges[pos[3]].dest = val
        elif k == 'p_tag':
            # tags are dictionary keys in the matcher: a small symbolic range (stated bound)
            node.p_edges[pos[3]].tag = None if val is None else eng.int('tag', 0, 31)
        elif k == 'sign':
            if val is None:
                del node.sign_cons[pos[3]]
            else:
                node.sign_cons[pos[3]] = val
        elif k == 'opt':
            op = node.p_edges[pos[3]].cons_sets[pos[4]].options[pos[5]]
            sel = eng.choice(8, 'optshape')
            op.value = b'\x08\x01a' if sel & 1 else None
            op.tag = (eng.int('tag', 0, 31) if mode == 'sym' else 1) if sel & 2 else None
            if sel & 4:
                op.fn = bny.UserFnCall()
                op.fn.fn_id = ['$eq', ''][eng.choice(2, 'fnid')]
                op.fn.args = []
            else:
                op.fn = None
    return m


def h_model(eng, case):
    from ndn.app_support.light_versec import Checker
    from ndn.app_support.light_versec.checker import LvsModelError
    from ndn.app_support.light_versec.compiler import SemanticError
    st = load_schema(case['schema'], case['text'])
    if st[0] != 'ok':
        eng.reach('schema-not-usable:' + st[0])
        return
    _, ref, model = st
    pos = positions(model)[case['pos']]
    eng.int_hash_candidates = list(range(len(model.nodes) + 2)) + [32, 33]
    m = corrupt(eng, model, pos, case['mode'])
    fns = user_fns()
    if case.get('reload'):
        # through the binary form: encode the corrupted model and load it again
        try:
            wire = m.encode()
        except Exception as e:
            eng.reach('corrupted-model-not-encodable')
            return
    sane, why = ref_sane(m)
    err = None
    import sys
    lim = sys.getrecursionlimit()
    sys.setrecursionlimit(min(lim, 600))      # a loader that recurses without end is reported quickly, in both modes
    try:
        if case.get('reload'):
            checker = Checker.load(wire, fns)
        else:
            checker = Checker(m, fns)
    except LvsModelError as e:
        err = 'LvsModelError'
    except SemanticError as e:
        err = 'SemanticError'
    except _Budget:
        raise
    except RecursionError:
        err = 'RecursionError'
    except Exception as e:
        # (deep recursion can surface inside a z3 binding call as another exception class)
        err = 'RecursionError' if 'recursion' in repr(e).lower() else exc_sig(e)
    finally:
        sys.setrecursionlimit(lim)
    field = pos[0] if pos[0] != 'node' else pos[2]
    if not sane:
        if err is None:
            eng.fail('rejects-iff-rule-broken', 'accepts-broken-rule:' + why, {'field': field, 'pos': list(pos)})
            return
        if err != 'LvsModelError':
            eng.fail('documented-model-error', 'raises:%s:for-broken-rule:%s' % (err, why), {'field': field})
            return
        eng.check(True, 'rejects-iff-rule-broken')
        eng.observe('verdict', 'rejected:' + why)
        eng.reach('end')
        return
    if err is not None and err not in ('LvsModelError', 'SemanticError'):
        eng.fail('no-internal-error', 'raises:%s:on-sane-model' % err, {'field': field})
        return
    eng.check(True, 'rejects-iff-rule-broken')
    if err is not None:
        eng.observe('verdict', 'rejected-stricter:' + err)
        eng.reach('end')
        return
    # accepted: every query terminates
    name = sym_name(eng, {'shape': [1] * case['nlen']}, 'q')
    try:
        size = len(m.nodes) + sum(len(n.v_edges) + len(n.p_edges) for n in m.nodes)
        res = _with_budget(lambda: [r for r in checker.match(name)], 40 * (size * (len(name) + 2) * 4 + 50))
        eng.check(True, 'queries-terminate')
    except _Budget:
        eng.fail('queries-terminate', 'match-exceeds-budget', {'field': field})
        return
    except LvsModelError:
        pass                                  # documented: unknown user function at query time
    except Exception as e:
        eng.fail('no-internal-error', 'query-raises:' + exc_sig(e), {'field': field})
        return
    eng.observe('verdict', 'accepted')
    eng.reach('end')


# ---------------------------------------------------------------------------------------------
# schema texts (concrete programs)
# ---------------------------------------------------------------------------------------------
def inject(text, kind, k):
    """one static error of the given kind at rule k of the schema text; None if not applicable"""
    rules = lvsref.parse(text)
    lines = [l for l in text.split('\n')]
    if not rules:
        return None
    r = rules[k % len(rules)]
    if kind == 'undefined-rule':
        return text + '\n#zz_inj: /"q"/#nosuchrule\n'
    if kind == 'temporary-rule-ref':
        return text + '\n#_tinj: /"q"\n#zz_inj: /#_tinj/"r"\n'
    if kind == 'temporary-rule-signer':
        return text + '\n#_tinj: /"q"/"k"\n#zz_inj: /"q"/"r" <= #_tinj\n'
    if kind == 'temporary-rule-among-signers':
        return text + '\n#_tinj: /"q"/"k"\n#_tinj: /"q"/"j"\n#zz_k: /"q"/"kk"\n#zz_inj: /"q"/"r" <= #zz_k | #_tinj\n'
    if kind == 'anonymous-temporary-rule-signer':
        return text + '\n#_: /"q"/"k"\n#_: /"q"/"j"\n#zz_inj: /"q"/"r" <= #_\n'
    if kind == 'cyclic-reference':
        return text + '\n#zz_a: /"q"/#zz_b\n#zz_b: /#zz_a/"r"\n'
    if kind == 'cyclic-reference-in-redefinition':
        # the reference that closes the cycle sits in a definition that is neither the first nor the last of its rule
        return text + '\n#zz_a: "y"\n#zz_a: #zz_a/"x"\n#zz_a: "z"\n'
    if kind == 'cyclic-reference-first-definition':
        return text + '\n#zz_a: #zz_b/"x"\n#zz_a: "y"\n#zz_b: #zz_a/"z"\n'
    if kind == 'self-reference':
        return text + '\n#zz_a: /"q"/#zz_a\n'
    if kind == 'cyclic-signing':
        return text + '\n#zz_a: /"q"/"a" <= #zz_b\n#zz_b: /"q"/"b" <= #zz_a\n'
    if kind == 'cyclic-signing-shared-key':
        # the key that closes the cycle already signs another rule
        return text + '\n#zz_a: /"q"/"a" <= #zz_k\n#zz_b: /"q"/"b" <= #zz_k\n#zz_k: /"q"/"k" <= #zz_b\n'
    if kind == 'cyclic-signing-through-rule':
        # a cycle through rule k of the schema: one more definition of it, signed by a new rule that it signs
        if r.name[1] == '_':
            return None
        return text + '\n%s: /"q"/"zz" <= #zz_a\n#zz_a: /"q"/"a" <= %s\n' % (r.name, r.name)
    if kind == 'self-signing':
        return text + '\n#zz_a: /"q"/"a" <= #zz_a\n'
    if kind == 'undefined-signer':
        return text + '\n#zz_a: /"q"/"a" <= #nosuchrule\n'
    if kind == 'unknown-pattern-constrained':
        return text + '\n#zz_a: /"q"/qq & {nosuchpattern: "a"}\n'
    if kind == 'unknown-temp-pattern-constrained':
        return text + '\n#zz_a: /"q"/qq & {_nosuch: "a"}\n'
    if kind == 'unknown-temp-pattern-constrained-literal-name':
        return text + '\n#zz_a: /"q"/"r" & {_nosuch: "a"}\n'
    if kind == 'unknown-temp-pattern-next-to-known':
        return text + '\n#zz_a: /"q"/_tt/qq & {_tt: "a", _tx: "b"}\n'
    if kind == 'unknown-pattern-constrained-literal-name':
        return text + '\n#zz_a: /"q"/"r" & {nosuchpattern: "a"}\n'
    if kind == 'unknown-pattern-option':
        return text + '\n#zz_a: /"q"/qq & {qq: nosuchpattern}\n'
    if kind == 'unknown-pattern-fn-arg':
        return text + '\n#zz_a: /"q"/qq & {qq: $eq(nosuchpattern)}\n'
    if kind == 'temporary-pattern-option':
        return text + '\n#zz_a: /"q"/_tt/qq & {qq: _tt}\n'
    if kind == 'temporary-pattern-fn-arg':
        return text + '\n#zz_a: /"q"/_tt/qq & {qq: $eq(_tt)}\n'
    return None


KINDS = ['unknown-temp-pattern-constrained', 'unknown-temp-pattern-constrained-literal-name',
         'unknown-temp-pattern-next-to-known', 'unknown-pattern-constrained-literal-name', 'undefined-rule', 'temporary-rule-ref', 'temporary-rule-signer', 'temporary-rule-among-signers',
         'anonymous-temporary-rule-signer', 'cyclic-reference', 'self-reference', 'cyclic-signing', 'self-signing',
         'cyclic-signing-shared-key', 'cyclic-reference-in-redefinition', 'cyclic-reference-first-definition',
         'undefined-signer', 'unknown-pattern-constrained', 'unknown-pattern-option', 'unknown-pattern-fn-arg',
         'temporary-pattern-option', 'temporary-pattern-fn-arg']


def h_text(eng, case):
    from ndn.app_support.light_versec import compile_lvs, Checker
    from ndn.app_support.light_versec.compiler import SemanticError
    text = case['text']
    kind = case['kind']
    if kind in ('none', 'compiles'):
        bad = text
    else:
        bad = inject(text, kind, case.get('k', 0))
        if bad is None:
            eng.reach('injection-not-applicable')
            return
    err = None
    if kind == 'compiles':
        # a schema of the catalogue (error free by construction) must get through the compiler; whether the model then
        # passes the loader depends on node-level signing cycles, which the statement excludes
        try:
            compile_lvs(text)
            compile_lvs(text)          # and once more: compiling must not depend on what was compiled before
        except Exception as e:
            err = exc_sig(e)
        eng.check(err is None, 'compiler-accepts-catalogue-schema', {'err': err, 'schema': case.get('schema')},
                  sig='compiler-rejects-error-free:%s' % err)
        eng.observe('err', err)
        eng.reach('end')
        return
    try:
        model = compile_lvs(bad)
        Checker(model, user_fns())
    except SemanticError:
        err = 'SemanticError'
    except Exception as e:
        err = exc_sig(e)
    if kind == 'none':
        eng.check(err is None, 'error-free-schema-accepted', {'err': err}, sig='rejects-error-free:%s' % err)
    else:
        eng.check(err == 'SemanticError', 'ill-formed-schema-rejected', {'kind': kind, 'err': err},
                  sig='%s:%s' % (kind, 'accepted' if err is None else err))
    eng.observe('err', err)
    eng.reach('end')


HARNESSES = {'model': h_model, 'text': h_text}


def cases(tier, seed):
    repo = os.environ.get('VERIF_REPO', '/repo')
    cat = lvsref.catalogue(tier, seed, repo)
    cs = []
    for key, text in sorted(cat.items()):
        st = load_schema(key, text)
        if not key.startswith('test') and st[0] != 'ref-rejects':
            cs.append(('text', {'text': text, 'kind': 'compiles', 'schema': key}))
        if st[0] != 'ok':
            continue
        ref, model = st[1], st[2]
        L = ref.max_len()
        npos = len(positions(model))
        quick = tier == 'quick'
        use_model = True
        if quick:
            # model corruption on the smaller models (every position of each of them); all schemas in thorough
            use_model = npos <= 45 and (not key.startswith('gen') or int(key[3:]) < 10)
        if use_model:
            for p in range(npos):
                for mode in ('sym', 'absent'):
                    cs.append(('model', {'schema': key, 'text': text, 'pos': p, 'mode': mode,
                                         'nlen': min(L, 2 if quick else 3)}, {'weight': 3}))
                if p % 7 == 0:
                    cs.append(('model', {'schema': key, 'text': text, 'pos': p, 'mode': 'sym', 'nlen': min(L, 2),
                                         'reload': True}, {'weight': 3}))
        # schema-text part: the schema itself (error free, if no rule signs itself) and one injected error per kind
        cs.append(('text', {'text': text, 'kind': 'none', 'schema': key}))
        for kind in KINDS:
            cs.append(('text', {'text': text, 'kind': kind, 'schema': key}))
        for k in range(len(lvsref.parse(text))):
            cs.append(('text', {'text': text, 'kind': 'cyclic-signing-through-rule', 'schema': key, 'k': k}))
    return cs
