# C09 -- name representations (URI, component list, wire) are mutually consistent.
# Real code executed symbolically: Component.from_bytes / from_number / to_number / get_type / get_value / to_str /
# to_canonical_uri / from_str / escape_str, Name.from_str / to_str / to_canonical_uri / encode / decode / normalize /
# is_prefix / to_bytes / from_bytes, write_tl_num / parse_tl_num / pack_uint_bytes.
import itertools
from symex.api import And, Or, Not, Implies, Iff, blist, bwrap, beq, exc_sig, as_int, mview, tobytes
from symex.core import SBool
from . import ref, env

PROPERTY = 'C09'
INFO = {
    'explanation': 'C09: byte-level identities (encode/decode/normalize/to_bytes, prefix test, canonical order as a formula '
                   'equivalence, typed numbers) are decided for all component types and value bytes; URI-level round trips '
                   'are decided by letting the solver enumerate every value of the bytes that reach chr()/formatting '
                   '(strings themselves are never solver variables).',
    'bounds': {'quick': {'byte_level': 'names of 0..3 components, type symbolic in the 1- and 3-byte form, 0..3 symbolic '
                                       'value bytes; pairs of names up to 2x2 components',
                         'uri_level': 'components with 0..1 symbolic value bytes (all 256 values) for 14 type numbers, '
                                      '2-byte windows starting with % = . , one symbolic 1-byte type (all values) with two '
                                      'fixed values; names of 0..2 components over {empty, 1 symbolic byte}',
                         'numbers': 'all v in [0,2^64) for from_number/to_number; URI shorthand at one solver-chosen value '
                                    'per width class plus class boundaries'},
               'thorough': {'byte_level': '0..4 components', 'uri_level': '0..2 symbolic value bytes'}},
    'outside': ['arbitrary URI strings as inputs (only strings produced from symbolic bytes and their case / 8= variants)',
                'names longer than the bound', 'shorthand URIs of non-canonically encoded numbers (not claimed by the property)'],
    'assumptions': ['str values are concrete on every path; decimal rendering of typed numbers is C code'],
}
MANDATORY = {'bytes_rt': ['decode-encode'], 'order': ['component-order'], 'uri_comp': ['uri-roundtrip']}


def _N():
    from ndn.encoding import Name, Component
    return Name, Component


def _ref_encode(comps):
    body = []
    for c in comps:
        body += blist(c)
    n = len(body)
    ln = [n] if n <= 0xFC else [0xFD] + list(n.to_bytes(2, 'big'))
    return [7] + ln + body


def h_bytes_rt(eng, case):
    Name, Component = _N()
    name = env.name_from_shape(eng, [tuple(x) for x in case['shape']], 'a')
    try:
        wire = Name.encode(name)
        eng.check(beq(wire, _ref_encode(name)), 'encode-is-reference-encoding')
        eng.check(beq(Name.to_bytes(name), _ref_encode(name)), 'encode-is-reference-encoding')
        back, used = Name.decode(wire)
        eng.check(env.names_equal(back, name), 'decode-encode')
        eng.check(used == len(wire), 'decode-encode')
        eng.check(env.names_equal(Name.from_bytes(wire), name), 'decode-encode')
        eng.check(env.names_equal(Name.normalize(name), name), 'normalize-forms-agree')
        eng.check(env.names_equal(Name.normalize(wire), name), 'normalize-forms-agree')
        eng.check(env.names_equal(Name.normalize(mview(wire)), name), 'normalize-forms-agree')
        eng.check(env.names_equal(Name.normalize(tobytes(wire)), name), 'normalize-forms-agree')
        eng.check(env.names_equal(Name.normalize(iter(name)), name), 'normalize-forms-agree')
        for c in name:
            lst = blist(c)
            t, ts, _ = ref.rd_num(lst, 0, len(lst))
            ln, ls, _ = ref.rd_num(lst, ts, len(lst))
            eng.check(Component.get_type(c) == t, 'component-accessors')
            eng.check(beq(Component.get_value(c), lst[ts + ls:]), 'component-accessors')
    except Exception as e:
        eng.fail('no-exception', exc_sig(e), repr(e)[:200])
        return
    eng.observe('wire', wire)
    eng.reach('end')


def h_prefix(eng, case):
    """is_prefix agrees with component-wise equality, in every accepted representation of the two names"""
    Name, Component = _N()
    a = env.name_from_shape(eng, [tuple(x) for x in case['a']], 'a')
    b = env.name_from_shape(eng, [tuple(x) for x in case['b']], 'b')
    pad = case.get('pad')
    if pad:
        # a long concrete component moves the Name value across 253 bytes (3-byte length header) on one or both sides
        long = bytes([8, 0xFD, 1, 4]) + b'y' * 260
        if pad == 'b':
            b = b + [long]
        elif pad == 'both':
            a, b = [long] + a, [long] + b
        else:
            a = a + [long]
    exp = len(a) <= len(b)
    if exp:
        for x, y in zip(a, b):
            exp = And(exp, len(x) == len(y) and beq(x, y))
    try:
        got = Name.is_prefix(a, b)
        eng.check(Iff(got, exp), 'prefix-test')
        if case.get('wire'):
            wa, wb = Name.encode(a), Name.encode(b)
            eng.check(Iff(Name.is_prefix(wa, tobytes(wb)), exp), 'prefix-test', sig='wire-wire')
            eng.check(Iff(Name.is_prefix(a, wb), exp), 'prefix-test', sig='list-wire')
            eng.check(Iff(Name.is_prefix(mview(wa), b), exp), 'prefix-test', sig='wire-list')
    except Exception as e:
        eng.fail('no-exception', exc_sig(e), repr(e)[:200])
        return
    eng.observe('got', got)
    eng.reach('end')


def _canon_lt(ta, va, tb, vb):
    """NDN canonical order of two components: type, then length, then value"""
    if len(va) != len(vb):
        inner = len(va) < len(vb)
    else:
        inner = bwrap(va) < bwrap(vb) if va else False
    return Or(ta < tb, And(ta == tb, inner))


def _lib_component(eng, tag, form, vlen):
    Name, Component = _N()
    typ = eng.int(tag + '.t', 1, 0xFC) if form == 1 else eng.int(tag + '.t', 0xFD, 0xFFFF)
    val = eng.bytes(tag + '.v', vlen)
    return Component.from_bytes(val, typ), typ, blist(val)


def h_order(eng, case):
    """library-produced components: Python comparison of the encodings == canonical order"""
    try:
        ca, ta, va = _lib_component(eng, 'a', case['fa'], case['la'])
        cb, tb, vb = _lib_component(eng, 'b', case['fb'], case['lb'])
        # the component is what an independent writer produces (shortest forms)
        eng.check(beq(ca, env.num_bytes(ta, case['fa']) + [case['la']] + va), 'from-bytes-shortest-form')
        lt = ca < cb
        eng.check(Iff(lt, _canon_lt(ta, va, tb, vb)), 'component-order')
        eq = ca == cb
        eng.check(Iff(eq, And(ta == tb, beq(va, vb))), 'component-order')
        gt = ca > cb
        eng.check(Iff(gt, _canon_lt(tb, vb, ta, va)), 'component-order')
    except Exception as e:
        eng.fail('no-exception', exc_sig(e), repr(e)[:200])
        return
    eng.reach('end')


def h_name_order(eng, case):
    """names as component lists: list comparison == canonical name order (first differing component decides,
    a proper prefix sorts first)"""
    try:
        A = [_lib_component(eng, 'a%d' % i, f, l) for i, (f, l) in enumerate(case['a'])]
        B = [_lib_component(eng, 'b%d' % i, f, l) for i, (f, l) in enumerate(case['b'])]
        na = [x[0] for x in A]
        nb = [x[0] for x in B]
        lt = na < nb
        # reference
        exp = len(A) < len(B)
        for (ca, ta, va), (cb, tb, vb) in reversed(list(zip(A, B))):
            same = And(ta == tb, beq(va, vb))
            exp = Or(_canon_lt(ta, va, tb, vb), And(same, exp))
        eng.check(Iff(lt, exp), 'name-order')
    except Exception as e:
        eng.fail('no-exception', exc_sig(e), repr(e)[:200])
        return
    eng.reach('end')


def h_number(eng, case):
    Name, Component = _N()
    v = eng.int('v', 0, 2 ** 64 - 1)
    t = eng.int('t', 1, 0xFC) if case['form'] == 1 else eng.int('t', 0xFD, 0xFFFF)
    try:
        c = Component.from_number(v, t)
        n = len(c) - case['form'] - 1
        eng.check(ref.uint_min_width(v, n), 'number-canonical-width')
        eng.check(Component.to_number(c) == v, 'number-roundtrip')
        eng.check(Component.get_type(c) == t, 'number-roundtrip')
        if case['form'] == 1:
            for mk, typ in (('from_segment', 0x32), ('from_byte_offset', 0x34), ('from_version', 0x36),
                            ('from_timestamp', 0x38), ('from_sequence_num', 0x3A)):
                c2 = getattr(Component, mk)(v)
                eng.check(And(Component.get_type(c2) == typ, Component.to_number(c2) == v), 'number-roundtrip')
    except Exception as e:
        eng.fail('no-exception', exc_sig(e), repr(e)[:200])
        return
    eng.reach('end')


# ---------------------------------------------------------------------------------------------
# URI level (bytes that reach chr()/format are enumerated by the solver)
# ---------------------------------------------------------------------------------------------
ALT = {0x32: 'seg', 0x34: 'off', 0x36: 'v', 0x38: 't', 0x3A: 'seq'}


def _lower_escapes(s):
    out = []
    i = 0
    while i < len(s):
        if s[i] == '%' and i + 3 <= len(s):
            out.append('%' + s[i + 1:i + 3].lower())
            i += 3
        else:
            out.append(s[i])
            i += 1
    return ''.join(out)


def _check_uri_component(eng, comp, typ, value_len_is_canonical_number):
    """comp: component (symbolic bytes allowed); performs the URI round trips"""
    Name, Component = _N()
    eng.format_concretize = True
    try:
        canon = Component.to_canonical_uri(comp)
        back = Component.from_str(canon)
        eng.check(beq(back, comp), 'uri-roundtrip')
        s = Component.to_str(comp)
        if typ in ALT and not value_len_is_canonical_number:
            eng.reach('shorthand-of-noncanonical-number-not-claimed')
        else:
            eng.check(beq(Component.from_str(s), comp), 'uri-roundtrip')
        # case-insensitive escapes and explicit generic type prefix
        eng.check(beq(Component.from_str(_lower_escapes(canon)), comp), 'uri-variants')
        if typ == 8:
            eng.check(beq(Component.from_str('8=' + canon), comp), 'uri-variants')
        # every character of the produced URI is from the documented character set
        eng.check(all(ch in Component.CHARSET for ch in canon), 'uri-charset')
        eng.observe('uri', s)
        eng.observe('canon', canon)
    except Exception as e:
        eng.fail('no-exception', exc_sig(e), repr(e)[:200])
        return False
    return True


def h_uri_comp(eng, case):
    Name, Component = _N()
    typ = case['typ']
    pre = bytes.fromhex(case.get('prefix', ''))
    val = bwrap(list(pre) + blist(eng.bytes('v', case['n'])))
    comp = bwrap(blist(env.concrete_component(typ, b''))[:-1] + [len(val)] + blist(val))
    canonical_num = False
    if typ in ALT:
        n = len(val)
        if n in (1, 2, 4, 8):
            # canonical iff minimal width: the leading half is not all zero (or n == 1)
            lst = blist(val)
            if n == 1:
                canonical_num = True
            else:
                hi = lst[:n // 2]
                nz = False
                for x in hi:
                    nz = Or(nz, x != 0)
                canonical_num = bool(nz) if not isinstance(nz, bool) else nz
    _check_uri_component(eng, comp, typ, canonical_num)
    eng.reach('end')


def h_uri_type(eng, case):
    """symbolic 1-byte / 3-byte type with a fixed value"""
    Name, Component = _N()
    form = case['form']
    typ = eng.int('t', 1, 0xFC) if form == 1 else eng.int('t', 0xFD, 0xFFFF)
    if form == 3:
        # 65283 values are too many to enumerate: the solver picks the class representatives through the
        # branch conditions only; restrict to a window chosen by the case
        eng.assume(And(typ >= case['lo'], typ <= case['hi']))
    val = bytes.fromhex(case['value'])
    comp = bwrap(env.num_bytes(typ, form) + [len(val)] + list(val))
    t = as_int(typ)
    canonical = len(val) == 1 or (len(val) in (2, 4, 8) and any(val[:len(val) // 2]))
    _check_uri_component(eng, comp, t, canonical)
    eng.reach('end')


def h_uri_number(eng, case):
    """typed-number shorthand: seg= / off= / v= / t= / seq= for canonically encoded numbers"""
    Name, Component = _N()
    lo, hi = case['lo'], case['hi']
    v = eng.int('v', lo, hi)
    typ = case['typ']
    eng.format_concretize = True
    try:
        c = Component.from_number(v, typ)
        if hi - lo > 4:
            # decimal rendering is C code: one solver-chosen value of this width class (a stated cut)
            v = eng.pick(v)
        s = Component.to_str(c)
        eng.check(s == '%s=%d' % (ALT[typ], as_int(v)), 'number-uri')
        eng.check(beq(Component.from_str(s), c), 'number-uri')
        eng.check(beq(Component.from_str(Component.to_canonical_uri(c)), c), 'number-uri')
    except Exception as e:
        eng.fail('no-exception', exc_sig(e), repr(e)[:200])
        return
    eng.reach('end')


def h_uri_name(eng, case):
    Name, Component = _N()
    comps = []
    for i, k in enumerate(case['lens']):
        if isinstance(k, (list, tuple)):
            # a fixed beginning (periods, '%', '=' ... - characters the URI syntax gives a meaning to) + k[1] symbolic octets
            pre = list(k[0].encode())
            ln = len(pre) + k[1]
            hdr = [ln] if ln <= 0xFC else ([0xFD] + list(ln.to_bytes(2, 'big')) if ln <= 0xFFFF else
                                           [0xFE] + list(ln.to_bytes(4, 'big')))
            comps.append(bwrap([8] + hdr + pre + blist(eng.bytes('c%d' % i, k[1]))))
            continue
        comps.append(env.concrete_component(8, b'') if k == 0 else
                     bwrap([8, k] + blist(eng.bytes('c%d' % i, k))))
    eng.format_concretize = True
    try:
        s = Name.to_str(comps)
        back = Name.from_str(s)
        eng.check(env.names_equal(back, comps), 'name-uri-roundtrip')
        c = Name.to_canonical_uri(comps)
        eng.check(env.names_equal(Name.from_str(c), comps), 'name-uri-roundtrip')
        eng.check(env.names_equal(Name.normalize(s), comps), 'name-uri-roundtrip')
        # the caller owns what it got: components returned earlier are edited in place (they are bytearrays), and the
        # same text is converted again - by every entry point that reads URIs
        for res in (back, Name.normalize(s), [Component.from_str(Component.to_str(x)) for x in comps]):
            for x in res:
                try:
                    x.extend(b'-edited')
                    x[0] = 9
                except (AttributeError, TypeError):
                    pass
        eng.check(env.names_equal(Name.from_str(s), comps), 'name-uri-roundtrip', sig='after-editing-earlier-results')
        eng.check(env.names_equal(Name.normalize(s), comps), 'name-uri-roundtrip', sig='after-editing-earlier-results')
        eng.check(env.names_equal([Component.from_str(Component.to_str(x)) for x in comps], comps), 'uri-roundtrip',
                  sig='after-editing-earlier-results')
        eng.check(Name.to_str(Name.from_str(s)) == s, 'name-uri-roundtrip', sig='after-editing-earlier-results')
        # the URI without the leading slash denotes the same name
        if comps:
            eng.check(env.names_equal(Name.from_str(s[1:]), comps) if not s.startswith('//') else True,
                      'name-uri-variants')
        eng.observe('uri', s)
    except Exception as e:
        eng.fail('no-exception', exc_sig(e), repr(e)[:200])
        return
    eng.reach('end')


UNICODE_TEXTS = ['caf\u00e9', '\u00ff\u0080', '\u03a3\u03c0', 'a\u3042\u3044b c', '\U0001f600', 'plain-._~', '\u0100',
                 '\u07ff\u0800', '\uffff', 'x\u00e9y\u03a3z\U00010000']


def h_uri_text(eng, case):
    """URI strings and str components with non-ASCII characters denote the UTF-8 octets of the text, through every entry
    point that accepts text"""
    Name, Component = _N()
    texts = [UNICODE_TEXTS[i] for i in case['texts']]
    exp = [env.concrete_component(8, t.encode('utf-8')) for t in texts]
    uri = '/' + '/'.join(texts)
    try:
        eng.check(env.names_equal(Name.from_str(uri), exp), 'normalize-forms-agree', sig='from_str(text)')
        eng.check(env.names_equal(Name.normalize(uri), exp), 'normalize-forms-agree', sig='normalize(text)')
        eng.check(env.names_equal(Name.normalize(list(texts)), exp), 'normalize-forms-agree', sig='normalize(list of str)')
        eng.check(beq(Name.to_bytes(uri), _ref_encode(exp)), 'normalize-forms-agree', sig='to_bytes(text)')
        eng.check(Name.to_str(uri) == Name.to_str(exp), 'normalize-forms-agree', sig='to_str(text)')
        eng.check(bool(Name.is_prefix(uri, exp)) and bool(Name.is_prefix(exp, uri)), 'prefix-test', sig='text-vs-components')
        for t, c in zip(texts, exp):
            eng.check(beq(Component.from_str(Component.escape_str(t)), c), 'uri-roundtrip', sig='escape_str(text)')
    except Exception as e:
        eng.fail('no-exception', exc_sig(e), repr(e)[:200])
        return
    eng.reach('end')


HARNESSES = {'uri_text': h_uri_text, 'bytes_rt': h_bytes_rt, 'prefix': h_prefix, 'order': h_order, 'name_order': h_name_order,
             'number': h_number, 'uri_comp': h_uri_comp, 'uri_type': h_uri_type, 'uri_number': h_uri_number,
             'uri_name': h_uri_name}

URI_TYPES = [1, 2, 8, 9, 32, 50, 52, 54, 56, 58, 252, 253, 300, 65535]


def _shapes(maxn, alphabet):
    out = []
    for n in range(maxn + 1):
        for s in itertools.product(alphabet, repeat=n):
            out.append([list(x) for x in s])
    return out


def cases(tier, seed):
    quick = tier == 'quick'
    cs = []
    for i in range(len(UNICODE_TEXTS)):
        cs.append(('uri_text', {'texts': [i]}))
        cs.append(('uri_text', {'texts': [i, (i + 3) % len(UNICODE_TEXTS)]}))
    alpha = [(1, 0), (1, 1), (1, 3), (3, 2)]
    for sh in _shapes(3 if quick else 4, alpha):
        cs.append(('bytes_rt', {'shape': sh}))
    for sh in ([['L', 260]], [[1, 1], ['L', 248]], [['L', 251], [1, 1]], [[1, 2], ['L', 300], [3, 1]], [['L', 252]], [['L', 253]]):
        cs.append(('bytes_rt', {'shape': sh}))
    small = [(1, 0), (1, 2), (3, 1)]
    for a in _shapes(2, small):
        for b in _shapes(2, small):
            cs.append(('prefix', {'a': a, 'b': b, 'wire': len(a) + len(b) <= 3}))
            if len(a) + len(b) <= 2:
                for pad in ('a', 'b', 'both'):
                    cs.append(('prefix', {'a': a, 'b': b, 'wire': True, 'pad': pad}))
    for fa in (1, 3):
        for fb in (1, 3):
            for la in range(0, 4):
                for lb in range(0, 4):
                    cs.append(('order', {'fa': fa, 'fb': fb, 'la': la, 'lb': lb}))
    csh = [(1, 0), (1, 1), (3, 2)]
    for a in _shapes(2, csh):
        for b in _shapes(2, csh):
            cs.append(('name_order', {'a': a, 'b': b}))
    cs.append(('number', {'form': 1}))
    cs.append(('number', {'form': 3}))
    maxn = 1 if quick else 2
    for t in URI_TYPES:
        for n in range(0, maxn + 1):
            cs.append(('uri_comp', {'typ': t, 'n': n}, {'weight': 4 if n else 1}))
        for pre in ('25', '3d', '2e', '2e2e', '00', 'ff'):
            cs.append(('uri_comp', {'typ': t, 'n': 1, 'prefix': pre}, {'weight': 4}))
        if t in ALT:
            for n, pre in ((1, '00'), (1, '01'), (3, '00'), (3, '01'), (7, '00'), (7, '80')):
                cs.append(('uri_comp', {'typ': t, 'n': 0, 'prefix': pre + '00' * n}))
    for val in ('', '41', '2561', '0001'):
        cs.append(('uri_type', {'form': 1, 'value': val}, {'weight': 4}))
        for lo, hi in ((253, 300), (65500, 65535), (4096, 4100)):
            cs.append(('uri_type', {'form': 3, 'value': val, 'lo': lo, 'hi': hi}))
    for t in ALT:
        for lo, hi in ((0, 0), (1, 254), (255, 256), (257, 65534), (65535, 65536), (65537, 2 ** 32 - 2),
                       (2 ** 32 - 1, 2 ** 32), (2 ** 32 + 1, 2 ** 64 - 2), (2 ** 64 - 1, 2 ** 64 - 1)):
            cs.append(('uri_number', {'typ': t, 'lo': lo, 'hi': hi}))
    for lens in ([], [0], [1], [0, 0], [0, 1], [1, 0], [1, 1] if not quick else [0, 1]):
        cs.append(('uri_name', {'lens': lens}, {'weight': 4}))
    # components made of periods (and one arbitrary octet): alone, first, last, in the middle of a name
    for pre in ('.', '..', '...', '....'):
        for lens in ([[pre, 0]], [[pre, 1]], [1, [pre, 0]], [[pre, 0], 0], [0, [pre, 0], [pre, 0]]):
            if quick and lens[0] == 1 and pre in ('.', '....'):
                continue
            cs.append(('uri_name', {'lens': lens}, {'weight': 4}))
    # long components made of plain characters: the component's own length field changes width at 253 and 65536
    for L in (252, 253, 254, 255, 256, 300) + (() if quick else (65535, 65536)):
        cs.append(('uri_name', {'lens': [['a' * L, 0]]}, {'weight': 3}))
        cs.append(('uri_name', {'lens': [1, ['b' * L, 0], 0]}, {'weight': 3}))
    if not quick:
        cs.append(('uri_name', {'lens': [1, 1]}, {'weight': 30, 'split_depth': 2}))
    return cs
