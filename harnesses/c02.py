# C02 -- signatures and parameter digests cover the specified bytes; tampering is detected.
# Real code executed symbolically: make_interest / make_data (OffsetMarker placement, SignatureValueField.encode_into /
# calculate_signature / parse_from, InterestNameField, InterestPacketValue.encode / parse digest computation after
# shrink, shrink_length), parse_interest / parse_data, sha256_digest_checker, params_sha256_checker, verify_rsa /
# verify_ecdsa / verify_hmac / verify_ed25519, KnownChecker.from_key closures, the shipped signer classes.
from symex import crypto
from symex.api import And, Or, Not, Implies, Iff, blist, bwrap, beq, bcat, exc_sig, as_int, tobytes
from . import ref, env

PROPERTY = 'C02'
INFO = {
    'explanation': 'C02: (coverage) a recording wrapper around each shipped signer captures the byte views handed to it; '
                   'their concatenation, the ranges reported by the parser and the digest written into the name are compared, '
                   'byte-wise and symbolically, with the signed portion that the reference reader delimits on the final wire; '
                   'the real verify_* / *_checker code must accept.  (tampering) one byte at every position is replaced by a '
                   'symbolic different value, every truncation is tried, and one TLV element with symbolic type is inserted / '
                   'an element is duplicated or removed at every boundary: the packet must be rejected by the parser or by the '
                   'matching verifier unless signed portion and signature value are unchanged; the parameters-digest check '
                   'must hold iff the digest component equals the ideal hash of ApplicationParameters-to-end.',
    'bounds': {'quick': {'packets': 'Data and Interest, name 1..2 symbolic components, payload / parameters 0..2 symbolic '
                                    'bytes, symbolic 64-bit field values; Interests with CanBePrefix, MustBeFresh, InterestLifetime, HopLimit '
                                    'each solver-chosen present/absent, ForwardingHint in some cases', 'signers': 'digest, hmac, rsa, ecdsa (r in [32,72]), '
                                    'ed25519', 'tampering': 'every byte position x any different value; every truncation; one '
                                    'TLV-level edit per boundary'}},
    'outside': ['cryptographic strength (ideal model)', 'more than one simultaneous edit'],
    'assumptions': ['ideal hash / signature model: injective, unforgeable (symex/crypto.py)'],
}
MANDATORY = {'cover_data': ['signed-portion-is-the-specified-range'], 'cover_interest': ['signed-portion-is-the-specified-range'],
             'tamper': ['tampering-detected'], 'sigzero': ['tampering-detected'], 'confuse': ['tampering-detected'],
             'verify_elastic': ['verifier-accepts', 'end']}


def run_sync(coro):
    try:
        coro.send(None)
    except StopIteration as e:
        return e.value
    raise RuntimeError('coroutine suspended')


class Rec:
    """wraps a shipped signer and records the views handed to write_signature_value"""
    def __init__(self, inner):
        self.inner = inner
        self.contents = None

    def write_signature_info(self, si):
        return self.inner.write_signature_info(si)

    def get_signature_value_size(self):
        return self.inner.get_signature_value_size()

    def write_signature_value(self, wire, contents):
        self.contents = [list(blist(c)) for c in contents]
        return self.inner.write_signature_value(wire, contents)


def verifier_accepts(kind, name, sig, warm=None):
    """the matching verifier of the library, on the ideal primitives.  ``warm`` = (name, sig) of another packet that the
    SAME verifier object is shown first (a verifier checks many packets in its life; the genuine one may come first)"""
    from ndn.security.validator import known_key_validator as kv
    from ndn.security.validator import digest_validator as dv
    if kind == 'digest':
        if warm is not None:
            run_sync(dv.sha256_digest_checker(*warm))
        return run_sync(dv.sha256_digest_checker(name, sig))
    if kind == 'hmac':
        a = kv.verify_hmac(b'hmac-key-k', sig)
        chk = kv.HmacChecker.from_key(env.KEY_NAME, b'hmac-key-k')
    elif kind == 'rsa':
        a = kv.verify_rsa(crypto.RSA.import_key(crypto.make_key('rsa', 'k')), sig)
        chk = kv.RsaChecker.from_key(env.KEY_NAME, crypto.make_key('rsa', 'k'))
    elif kind in env.ECDSA_CURVES:
        kb = crypto.make_key('ecc', 'k', env.ECDSA_CURVES[kind])
        a = kv.verify_ecdsa(crypto.ECC.import_key(kb), sig)
        chk = kv.EccChecker.from_key(env.KEY_NAME, kb)
    elif kind == 'ed25519':
        a = kv.verify_ed25519(crypto.ECC.import_key(crypto.make_key('ed', 'k')), sig)
        chk = kv.Ed25519Checker.from_key(env.KEY_NAME, crypto.make_key('ed', 'k'))
    else:
        raise AssertionError(kind)
    if warm is not None:
        run_sync(chk(*warm))
    b = run_sync(chk(name, sig))
    if warm is None and bool(a) != bool(b):
        raise AssertionError('verify_* and *Checker disagree')
    return And(a, b) if warm is None else b


def spec_ranges(w, pkt):
    """signed portion / signature value / digest range of a wire, delimited by the reference reader"""
    if pkt == 'data':
        rv = ref.parse_data(w)
        out = {'rv': rv}
        if 'sigvalue' in rv['#region']:
            st, vs, ve = rv['#region']['sigvalue']
            out['signed'] = w[rv['#region']['name_start']:st]
            out['sig'] = w[vs:ve]
        return out
    rv = ref.parse_interest(w)
    out = {'rv': rv}
    comps = rv['name']
    signed = []
    dig = None
    for c in comps:
        if len(c) >= 1 and c[0] == 2:
            dig = c[2:]
        else:
            signed += c
    ps = rv['#region'].get('params_start')
    out['digest'] = dig
    if ps is not None:
        out['digest_range'] = w[ps:rv['#outer'].ve]
    if 'sigvalue' in rv['#region']:
        st, vs, ve = rv['#region']['sigvalue']
        out['signed'] = signed + w[ps:st]
        out['sig'] = w[vs:ve]
    return out


class _Fixed:
    """engine facade that hands out fixed values: the tampering harness keeps the ORIGINAL packet concrete, so
    that the signature bytes are concrete too (the parser may end up reading them as structure after an edit, and an
    ideal-function output chosen by the solver could not be replayed natively)"""
    def __init__(self, eng):
        self.eng = eng

    def int(self, name, lo=None, hi=None):
        if name == 'r':
            return hi
        return lo if lo is not None else 0

    def bytes(self, name, n, kind='bytes'):
        return bytes((i * 5 + 1) & 0xFF for i in range(n))

    def assume(self, c, check=True):
        pass

    def choice(self, n, name=''):
        return 0

    def bool(self, name):
        return True

    def __getattr__(self, k):
        return getattr(self.eng, k)


def build(eng, pkt, kind, case):
    """(wire, recording signer)"""
    import ndn.encoding as enc
    if case.get('concrete'):
        eng = _Fixed(eng)
    env.symbolic_env(eng)
    env.set_clock(lambda: eng.int('clock', 2 ** 32, 2 ** 63))
    env.set_nonce(lambda: eng.int('nonce32', 1, 2 ** 32 - 1), lambda: eng.int('nonce64', 2 ** 32, 2 ** 64 - 1))
    name = env.name_from_shape(eng, [tuple(x) for x in case.get('shape', [[1, 1], [1, 1]])])
    inner = env.make_signer(eng, kind, for_interest=(pkt == 'interest'), rmin=case.get('rmin', 32))
    rec = Rec(inner)
    if case.get('reuse'):
        # the same signer object has already signed other packets (a signer is used for many packets in its life)
        for j in range(case['reuse']):
            if (pkt == 'data') == (j % 2 == 0):
                enc.make_data('/warm/up/%d' % j, enc.MetaInfo(), b'earlier packet', rec)
            else:
                enc.make_interest('/warm/up/%d' % j, enc.InterestParam(nonce=j + 1), b'earlier', rec)
        rec.contents = None
    k = case.get('payload', 1)
    if pkt == 'data':
        content = None if k is None else eng.bytes('content', k)
        meta = enc.MetaInfo(content_type=eng.int('ct', 0, 255), freshness_period=eng.int('fp', 256, 65535))
        wire = enc.make_data(name, meta, content, rec)
    else:
        app = None if k is None else eng.bytes('app', k)
        dp = case.get('digest_pos')
        in_name = list(name)
        if dp is not None:
            in_name.insert(dp, env.concrete_component(2, bytes(32)))
        # every optional element that may stand between the Name and ApplicationParameters is present or absent
        param = enc.InterestParam(can_be_prefix=bool(eng.bool('cbp')), must_be_fresh=bool(eng.bool('mbf')),
                                  nonce=eng.int('nonce', 0, 2 ** 32 - 1),
                                  lifetime=eng.int('lifetime', 256, 65535) if eng.bool('has_lifetime') else None,
                                  hop_limit=eng.int('hop', 0, 255) if eng.bool('has_hop') else None)
        if case.get('fh'):
            param.forwarding_hint = [[env.concrete_component(8, b'fh'), env.concrete_component(8, b'x')]]
        wire = enc.make_interest(in_name, param, app, rec)
    return tobytes(wire), rec, name


def h_cover(eng, case):
    import ndn.encoding as enc
    from ndn.security.validator import digest_validator as dv
    pkt, kind = case['pkt'], case['signer']
    try:
        wire, rec, name = build(eng, pkt, kind, case)
    except Exception as e:
        eng.fail('encode-no-exception', exc_sig(e), repr(e)[:150])
        return
    w = list(blist(wire))
    try:
        sp = spec_ranges(w, pkt)
    except ref.RefReject as r:
        eng.fail('wire-wellformed', 'ref-reject:' + r.args[0])
        return
    handed = []
    for c in rec.contents or []:
        handed += c
    eng.check(beq(handed, sp['signed']), 'signed-portion-is-the-specified-range',
              {'handed': len(handed), 'specified': len(sp['signed'])}, sig='bytes-handed-to-signer')
    try:
        if pkt == 'data':
            n2, m2, c2, sig = enc.parse_data(wire)
        else:
            n2, p2, a2, sig = enc.parse_interest(wire)
    except Exception as e:
        eng.fail('decode-no-exception', exc_sig(e), repr(e)[:150])
        return
    eng.check(beq(bcat(*sig.signature_covered_part), sp['signed']), 'signed-portion-is-the-specified-range',
              sig='bytes-reported-by-parser')
    eng.check(beq(sig.signature_value_buf, sp['sig']), 'signature-value-range')
    if pkt == 'interest':
        eng.check(beq(bcat(*sig.digest_covered_part), sp['digest_range']), 'digest-range', sig='digest-covered-part')
        eng.check(beq(sig.digest_value_buf, sp['digest']), 'digest-range', sig='digest-value-buffer')
        exp = crypto.ideal('sha256', list(sp['digest_range']))
        eng.check(beq(sp['digest'], exp), 'digest-computed-after-shrink')
        try:
            eng.check(run_sync(dv.params_sha256_checker(n2, sig)), 'params-digest-check-accepts')
        except Exception as e:
            eng.fail('params-digest-check-accepts', exc_sig(e))
    try:
        acc = verifier_accepts(kind, n2, sig)
    except Exception as e:
        eng.fail('verifier-accepts', exc_sig(e), repr(e)[:120])
        return
    eng.check(acc, 'verifier-accepts', {'verifier': repr(acc)})
    eng.observe('len', len(w))
    eng.reach('end')


def _mutations(eng, w, sp, case):
    """the tampered wire according to the case; returns (w2, description) or None"""
    op = case['op']
    if op == 'byte':
        k = case['pos']
        if k >= len(w):
            return None
        nv = eng.int('tamper', 0, 255)
        eng.assume(nv != w[k])
        return w[:k] + [nv] + w[k + 1:]
    if op == 'trunc':
        k = case['pos']
        if k >= len(w):
            return None
        return w[:k]
    # TLV-level edits inside the outer element: boundaries of the top-level members
    o = sp['rv']['#outer']
    elems = ref.rd_seq(w, o.vs, o.ve)
    k = case['pos']
    if op == 'insert':
        if k > len(elems):
            return None
        at = elems[k].start if k < len(elems) else o.ve
        typ = eng.int('ityp', 1, 0xFC)
        val = blist(eng.bytes('ival', case.get('vlen', 1)))
        new = [typ, len(val)] + val
        body = w[o.vs:at] + new + w[at:o.ve]
    elif op == 'dup':
        if k >= len(elems):
            return None
        body = w[o.vs:elems[k].ve] + w[elems[k].start:elems[k].ve] + w[elems[k].ve:o.ve]
    elif op == 'remove':
        if k >= len(elems):
            return None
        body = w[o.vs:elems[k].start] + w[elems[k].ve:o.ve]
    else:
        raise AssertionError(op)
    n = len(body)
    ln = [n] if n <= 0xFC else [0xFD] + list(n.to_bytes(2, 'big'))
    return [w[0]] + ln + body


def h_sigzero(eng, case):
    """a signature value that begins with a zero octet (about one packet in 256), with that octet removed and every
    enclosing length corrected: another signature value, must not verify"""
    import ndn.encoding as enc
    kind = case['signer']
    F = _Fixed(eng)
    env.symbolic_env(F)
    signer = env.make_signer(F, kind, rmin=72)
    found = None
    for n in range(6000):
        wire = bytes(enc.make_data('/z/%d' % n, enc.MetaInfo(freshness_period=n), b'payload', signer))
        rv = ref.parse_data(list(wire))
        st, vs, ve = rv['#region']['sigvalue']
        if wire[vs] == 0:
            found = (wire, rv, st, vs, ve)
            break
    if found is None:
        eng.reach('no-packet-with-leading-zero-found')
        return
    wire, rv, st, vs, ve = found
    body_start = rv['#outer'].vs
    inner = list(wire[body_start:st]) + mg_tlv(0x17, list(wire[vs + 1:ve])) + list(wire[ve:])
    w2 = bytes(mg_tlv(6, inner))
    try:
        n2, m2, c2, sig = enc.parse_data(w2)
    except Exception:
        eng.check(True, 'tampering-detected')
        eng.reach('end')
        return
    try:
        acc = verifier_accepts(kind, n2, sig)
    except Exception as e:
        eng.fail('verifier-no-exception', exc_sig(e), repr(e)[:120])
        return
    eng.check(Not(acc), 'tampering-detected', {'signature_octets': ve - vs - 1},
              sig='modified-packet-accepted:%s:leading-zero-octet-of-the-signature-removed' % kind)
    eng.observe('acc', bool(acc))
    eng.reach('end')


def mg_tlv(t, val):
    from . import modelgen
    return modelgen.w_tlv(t, val)


def h_tamper(eng, case):
    import ndn.encoding as enc
    from ndn.security.validator import digest_validator as dv
    pkt, kind = case['pkt'], case['signer']
    wire, rec, name = build(eng, pkt, kind, dict(case, concrete=True))
    w = list(blist(wire))
    sp = spec_ranges(w, pkt)
    w2 = _mutations(eng, w, sp, case)
    if w2 is None:
        eng.reach('edit-not-applicable')
        return
    buf = bwrap(w2)
    try:
        if pkt == 'data':
            n2, m2, c2, sig = enc.parse_data(buf)
        else:
            n2, p2, a2, sig = enc.parse_interest(buf)
    except Exception as e:
        eng.check(True, 'tampering-detected')
        eng.observe('outcome', 'parse-rejects')
        eng.reach('end')
        return
    # what the verifier is shown
    if sig.signature_info is None or sig.signature_value_buf is None:
        eng.check(True, 'tampering-detected')
        eng.observe('outcome', 'no-signature-left')
        eng.reach('end')
        return
    try:
        warm = None
        if case.get('warm'):
            # the verifier object has accepted the genuine packet just before
            if pkt == 'data':
                n0, _m0, _c0, sig0 = enc.parse_data(wire)
            else:
                n0, _p0, _a0, sig0 = enc.parse_interest(wire)
            warm = (n0, sig0)
        acc = verifier_accepts(kind, n2, sig, warm)
    except Exception as e:
        eng.fail('verifier-no-exception', exc_sig(e), repr(e)[:120])
        return
    # specification: what the reference delimits on the TAMPERED wire
    try:
        sp2 = spec_ranges(w2, pkt)
    except ref.RefReject:
        sp2 = None
    if acc:
        # accepted: then signed portion and signature value are those of the original packet
        if sp2 is None:
            # the reference considers the edited wire malformed (e.g. an element overrunning its parent) and the
            # parser accepted it leniently: that is C07's business.  For C02 compare what the verifier was shown.
            same = And(beq(bcat(*sig.signature_covered_part), sp['signed']), beq(sig.signature_value_buf, sp['sig']))
            eng.reach('malformed-wire-accepted-by-parser')
        else:
            same = 'signed' in sp2
            if same:
                same = And(beq(sp2['signed'], sp['signed']), beq(sp2['sig'], sp['sig']))
        where = ''
        if case['op'] == 'byte':
            ok_, tree = ref.strict_tree(w, 0, len(w), [('data', 6, 'model', (ref.DATA, False))] if pkt == 'data' else
                                        [('interest', 5, 'model', (ref.INTEREST, False))])
            for pth, t in tree:
                if t.start <= case['pos'] < t.ve:
                    where = pth + ('[T/L]' if case['pos'] < t.vs else '')
        eng.check(same, 'tampering-detected', {'op': case['op'], 'pos': case['pos'], 'where': where},
                  sig='modified-packet-accepted:%s:%s:%s' % (kind, case['op'], where))
    else:
        eng.check(True, 'tampering-detected')
    if pkt == 'interest' and sp2 is not None and sp2.get('digest') is not None and 'digest_range' in sp2:
        try:
            ok = run_sync(dv.params_sha256_checker(n2, sig))
        except Exception as e:
            eng.fail('params-digest-check-no-exception', exc_sig(e))
            return
        exp = beq(sp2['digest'], crypto.ideal('sha256', list(sp2['digest_range']))) if len(sp2['digest']) == 32 else False
        eng.check(Iff(ok, exp), 'params-digest-check-iff', {'op': case['op'], 'pos': case['pos']},
                  sig='digest-check-%s' % ('accepts-wrong' if ok else 'rejects-right'))
    eng.observe('outcome', 'verified' if acc else 'verifier-rejects')
    eng.reach('end')


def h_confuse(eng, case):
    """algorithm confusion: a packet made by somebody who knows only PUBLIC material - the verifier's key bits used as a
    MAC key, a plain digest, no signature at all - and announces whatever SignatureType suits him must be rejected by a
    verifier object that was built for one key of one kind"""
    import ndn.encoding as enc
    from ndn import security as sec
    from ndn.security.validator import known_key_validator as kv
    V, forge, pkt = case['verifier'], case['forge'], case['pkt']
    keybits = {'ecdsa': lambda: crypto.make_key('ecc', 'k'), 'rsa': lambda: crypto.make_key('rsa', 'k'),
               'ed25519': lambda: crypto.make_key('ed', 'k'), 'hmac': lambda: b'hmac-key-k'}[V]()
    chk = {'ecdsa': kv.EccChecker, 'rsa': kv.RsaChecker, 'ed25519': kv.Ed25519Checker,
           'hmac': kv.HmacChecker}[V].from_key(env.KEY_NAME, keybits)
    env.symbolic_env(eng)
    if forge == 'hmac-with-the-public-key':
        signer = sec.HmacSha256Signer(env.KEY_NAME, tobytes(keybits))
    elif forge == 'digest':
        signer = sec.DigestSha256Signer(pkt == 'interest')
    else:
        signer = sec.NullSigner()
    name = env.name_from_shape(eng, [(1, 1)])
    try:
        if pkt == 'data':
            wire = enc.make_data(name, enc.MetaInfo(freshness_period=eng.int('fp', 0, 65535)), eng.bytes('c', 1), signer)
            n2, _, _, sig = enc.parse_data(wire)
        else:
            wire = enc.make_interest(name, enc.InterestParam(nonce=eng.int('nonce', 0, 2 ** 32 - 1)), eng.bytes('a', 1),
                                     signer)
            n2, _, _, sig = enc.parse_interest(wire)
        got = run_sync(chk(n2, sig))
    except Exception as e:
        eng.fail('tampering-detected', 'confuse-raises:' + exc_sig(e), repr(e)[:150])
        return
    eng.check(Not(got) if not isinstance(got, bool) else (not got), 'tampering-detected',
              {'verifier': V, 'forged_with': forge}, sig='forged-packet-accepted:' + forge)
    eng.reach('end')


def h_verify_elastic(eng, case):
    """payload of solver-chosen LENGTH (elastic buffer): what the signer was handed and what the verifier is shown after
    parsing are the same octets for every payload length, signature length and shrink amount - the matching verifier
    (real code, ideal primitives with payload identity) accepts, and the parameters-digest check accepts"""
    import ndn.encoding as enc
    from ndn.security.validator import digest_validator as dv
    kind, pkt = case['signer'], case['pkt']
    env.set_clock(lambda: 1700000000123)
    env.set_nonce(lambda: 0x01020304, lambda: 0x0102030405060708)
    name = env.name_from_shape(eng, [(1, 1)])
    payload, n = eng.elastic('payload', 0, case['max'])
    signer = env.make_signer(eng, kind, for_interest=(pkt == 'interest'), rmin=case.get('rmin', 32), rmax=case.get('rmax'))
    try:
        if pkt == 'data':
            wire = enc.make_data(name, enc.MetaInfo(freshness_period=eng.int('fp', 0, 2 ** 32)), payload, signer)
            n2, _, c2, sig = enc.parse_data(wire)
        else:
            wire = enc.make_interest(name, enc.InterestParam(nonce=eng.int('nonce', 0, 2 ** 32 - 1)), payload, signer)
            n2, _, c2, sig = enc.parse_interest(wire)
    except Exception as e:
        eng.fail('verifier-accepts', 'raises:' + exc_sig(e), repr(e)[:150])
        return
    eng.check(c2 is not None and (c2 == payload), 'signed-portion-is-the-specified-range', sig='payload-after-parse')
    try:
        ok = verifier_accepts(kind, n2, sig)
    except Exception as e:
        eng.fail('verifier-accepts', 'verifier-raises:' + exc_sig(e), repr(e)[:150])
        return
    eng.check(ok, 'verifier-accepts', {'signer': kind, 'packet': pkt})
    if pkt == 'interest':
        try:
            okd = run_sync(dv.params_sha256_checker(n2, sig))
        except Exception as e:
            eng.fail('params-digest-check-iff', 'raises:' + exc_sig(e))
            return
        eng.check(okd, 'params-digest-check-iff', sig='genuine-digest-rejected')
    eng.observe('payload_octets', n)
    eng.reach('end')


HARNESSES = {'verify_elastic': h_verify_elastic, 'confuse': h_confuse, 'sigzero': h_sigzero, 'cover_data': h_cover, 'cover_interest': h_cover, 'tamper': h_tamper}
KINDS = ['digest', 'hmac', 'rsa', 'ecdsa', 'ed25519']


def cases(tier, seed):
    cs = []
    quick = tier == 'quick'
    for kind in KINDS:
        for payload in (None, 0, 2):
            for shape in ([[1, 1]], [[1, 1], [3, 0]]):
                cs.append(('cover_data', {'pkt': 'data', 'signer': kind, 'payload': payload, 'shape': shape,
                                          'rmin': 32 if payload == 2 and len(shape) == 2 else 66}, {'weight': 10}))
                for dp in (None, 0, len(shape)):
                    cs.append(('cover_interest', {'pkt': 'interest', 'signer': kind, 'payload': payload, 'shape': shape,
                                                  'digest_pos': dp, 'rmin': 32 if (payload == 2 and dp is None) else 68,
                                                  'fh': dp == 0},
                               {'weight': 10}))
    for kind in ('rsa', 'ed25519', 'hmac'):
        cs.append(('sigzero', {'signer': kind}, {'weight': 20}))
    # every EC key size (the announced signature type stays SignatureSha256WithEcdsa: signer and verifier must agree on
    # SHA-256 whatever the curve)
    for kind, rmin in (('ecdsa224', 60), ('ecdsa384', 100), ('ecdsa521', 136)):
        cs.append(('cover_data', {'pkt': 'data', 'signer': kind, 'payload': 1, 'shape': [[1, 1]], 'rmin': rmin}, {'weight': 10}))
        cs.append(('cover_interest', {'pkt': 'interest', 'signer': kind, 'payload': 1, 'shape': [[1, 1]],
                                      'digest_pos': None, 'rmin': rmin}, {'weight': 10}))
    for kind in KINDS:
        for pkt in ('data', 'interest'):
            if kind == 'ecdsa':
                for lo in ((70,) if quick else range(32, 73, 4)):
                    cs.append(('verify_elastic', {'signer': kind, 'pkt': pkt, 'max': 70000 if quick else 2 ** 20,
                                                  'rmin': lo, 'rmax': min(72, lo + (2 if quick else 3))}, {'weight': 30}))
            else:
                cs.append(('verify_elastic', {'signer': kind, 'pkt': pkt, 'max': 70000 if quick else 2 ** 20},
                           {'weight': 10}))
    for V in ('ecdsa', 'rsa', 'ed25519', 'hmac'):
        for forge in ('hmac-with-the-public-key', 'digest', 'null'):
            if V == 'hmac' and forge.startswith('hmac'):
                continue
            for pkt in ('data', 'interest'):
                cs.append(('confuse', {'verifier': V, 'forge': forge, 'pkt': pkt}, {'weight': 3}))
    # a signer object that has signed before (same kind of packet, the other kind, several)
    for kind in KINDS:
        for n in (1, 2):
            cs.append(('cover_data', {'pkt': 'data', 'signer': kind, 'payload': 1, 'shape': [[1, 1]], 'rmin': 70,
                                      'reuse': n}, {'weight': 10}))
            cs.append(('cover_interest', {'pkt': 'interest', 'signer': kind, 'payload': 1, 'shape': [[1, 1]],
                                          'digest_pos': None, 'rmin': 70, 'reuse': n}, {'weight': 10}))
    # tampering: sizes of the two template packets are bounded by ~120 / ~140 bytes (RSA: 256-byte signature)
    for pkt in ('data', 'interest'):
        for kind in KINDS:
            n = 380 if kind == 'rsa' else 170
            step = 1
            if quick and kind in ('rsa', 'ed25519'):
                step = 3
            for k in range(0, n, step):
                cs.append(('tamper', {'pkt': pkt, 'signer': kind, 'op': 'byte', 'pos': k, 'rmin': 70, 'payload': 1,
                                      'shape': [[1, 1]]}))
            # the same edits shown to a verifier object that has just accepted the genuine packet
            for k in range(0, n, 4 if quick else 1):
                cs.append(('tamper', {'pkt': pkt, 'signer': kind, 'op': 'byte', 'pos': k, 'rmin': 70, 'payload': 1,
                                      'shape': [[1, 1]], 'warm': True}))
            for k in range(0, n, 2 if quick else 1):
                cs.append(('tamper', {'pkt': pkt, 'signer': kind, 'op': 'trunc', 'pos': k, 'rmin': 72, 'payload': 1,
                                      'shape': [[1, 1]]}))
            for k in range(0, 9):
                cs.append(('tamper', {'pkt': pkt, 'signer': kind, 'op': 'insert', 'pos': k, 'rmin': 72, 'payload': 1,
                                      'shape': [[1, 1]], 'vlen': 1}))
                cs.append(('tamper', {'pkt': pkt, 'signer': kind, 'op': 'dup', 'pos': k, 'rmin': 72, 'payload': 1,
                                      'shape': [[1, 1]]}))
                cs.append(('tamper', {'pkt': pkt, 'signer': kind, 'op': 'remove', 'pos': k, 'rmin': 72, 'payload': 1,
                                      'shape': [[1, 1]]}))
    return cs
