# C14 -- the schema validator accepts exactly packets with a valid chain to the anchor.
# Real code executed symbolically: light_versec.validator.lvs_validator (validate_name, sanity_check),
# CascadeChecker.__init__ / validate / _verify_sig / __call__, MemoryKeyStorage, union_checker, Checker.check / match /
# root_of_trust, verify_rsa / verify_ecdsa / verify_hmac (on ideal primitives), parse_data; certificates are fetched
# through the real legacy NDNApp.express_interest against a stub certificate repository on the virtual-time loop.
import asyncio
from symex import vloop, crypto
from symex.api import And, Or, Not, Implies, Iff, blist, bwrap, beq, exc_sig, as_int, tobytes
from . import env, appenv, ref, lvsref

PROPERTY = 'C14'
INFO = {
    'explanation': 'C14: (deep) schema and certificate hierarchy are generated for depth D with one key type per level, built '
                   'with the real new_cert / make_data on the ideal signature model; one deviation per run is injected at one '
                   'link (signature byte, issuer not allowed by the schema, certificate name fitting no key rule, substituted '
                   'key under the same certificate name, Nack, silence, unsigned element, self-loop, packet name outside the '
                   'schema, one tampered byte with a symbolic non-zero delta); the verdict must equal a reference chain '
                   'predicate that is not told the fault: it walks the chain on reference-parsed bytes, the source-level '
                   'schema and the repository contents.  (ctor_roots) four schemas whose roots of trust and anchor matches '
                   'differ in each direction, first component of the anchor name symbolic.  (chain / ctor) hand-written '
                   'depth 1..2 cases.  (history) validator instances built with DEFAULT arguments, several anchors, ghost '
                   'certificates, both orders.',
    'bounds': {'quick': {'chain_depth': '1..3 links below the anchor', 'faults': 'one per run, 10 kinds, at every link',
                         'tampering': '6 byte positions per element, any different value',
                         'signature_corruption': 'position in {0, mid, last}, any different value',
                         'history': '2..3 instances, 2..3 validations, both orders'},
               'thorough': {'chain_depth': '1..4', 'tampering': 'every byte position of every element of a depth-2 and a '
                            'depth-3 chain, any different value'}},
    'outside': ['real cryptography', 'chains deeper than 4 links', 'more than one simultaneous deviation',
                'validity periods (not consulted by the validator, not part of the statement)'],
    'assumptions': ['ideal signature / hash model', 'virtual-time loop', 'stub repository answers an Interest for a '
                    'certificate name with that certificate (or Nack / silence)'],
}
MANDATORY = {'deep': ['verdict-equals-chain-predicate', 'reference-accepts-the-valid-chain'],
             'chain': ['verdict-equals-chain-predicate'], 'ctor': ['constructor-checks-anchor'],
             'ctor_roots': ['constructor-checks-anchor'], 'history': ['verdict-independent-of-history'],
             'seq': ['verdict-independent-of-history'], 'concurrent': ['verdict-independent-of-history'],
             'repair': ['verdict-independent-of-history', 'end']}

SCHEMA = '''
#KEY: "KEY"/_/_/_
#root: /"k"/#KEY
#mid: /"k"/"a"/#KEY <= #root
#other: /"k"/"b"/#KEY <= #root
#data: /"k"/"a"/"d"/_ <= #mid
#direct: /"k"/"r"/_ <= #root
'''
_C = {}


def setup():
    if 'model' in _C:
        return _C
    from ndn.app_support.light_versec import compile_lvs, Checker
    _C['model'] = compile_lvs(SCHEMA)
    return _C


def mk_signer(kind, key_name, ident):
    from ndn import security as sec
    if kind == 'rsa':
        return sec.Sha256WithRsaSigner(key_name, crypto.make_key('rsa', ident)), crypto.make_key('rsa', ident)
    if kind == 'ecdsa':
        return sec.Sha256WithEcdsaSigner(key_name, crypto.make_key('ecc', ident)), crypto.make_key('ecc', ident)
    if kind == 'hmac':
        return sec.HmacSha256Signer(key_name, b'hmac-' + ident.encode()), b'hmac-' + ident.encode()
    raise AssertionError(kind)


def build_world(eng, anchor_kind='rsa', mid_kind='ecdsa', tag=''):
    """anchor certificate, intermediate certificates and their signers (all certificates valid)"""
    import datetime
    from ndn.app_support import security_v2 as sv
    from ndn.encoding import Name, Component
    env.set_clock(lambda: 1700000000000)
    d0, d1 = datetime.datetime(2020, 1, 1), datetime.datetime(2040, 1, 1)
    W = {}
    a_keyname = Name.from_str('/k/KEY/%s1' % tag)
    a_certname_guess = None
    # the anchor signs itself: key locator = its own certificate name (known only after creation: two passes)
    a_signer, a_pub = mk_signer(anchor_kind, '/k/KEY/%s1' % tag, tag + 'anchor')
    name, wire = sv.new_cert(a_keyname, Component.from_str('self'), a_pub, a_signer, d0, d1)
    a_signer.key_locator_name = name
    name, wire = sv.new_cert(a_keyname, Component.from_str('self'), a_pub, a_signer, d0, d1)
    W['anchor'] = (name, tobytes(wire), a_signer, a_pub)
    for role, path, ident in (('mid', '/k/a/KEY/%s2' % tag, tag + 'mid'), ('other', '/k/b/KEY/%s3' % tag, tag + 'other')):
        s, pub = mk_signer(mid_kind, path, ident)
        issuer = mk_signer(anchor_kind, None, tag + 'anchor')[0]
        issuer.key_locator_name = W['anchor'][0]
        cname, cwire = sv.new_cert(Name.from_str(path), Component.from_str('x'), pub, issuer, d0, d1)
        s.key_locator_name = cname
        W[role] = (cname, tobytes(cwire), s, pub)
    return W


def corrupt_sig(eng, wire):
    """one byte of the signature value replaced by a symbolic different value at a chosen position"""
    w = list(blist(wire))
    rv = ref.parse_data(w)
    _, vs, ve = rv['#region']['sigvalue']
    pos = [vs, (vs + ve) // 2, ve - 1][eng.choice(3, 'sigpos')]
    delta = eng.int('sigdelta', 1, 255)          # any different value, relative to the (ideal) signature byte
    w[pos] = (w[pos] + delta) % 256
    return bwrap(w)


def tamper(eng, wire, k):
    """one byte of the element changed by a symbolic non-zero delta; position k/5 of the way from the Name to the end"""
    w = list(blist(wire))
    rv = ref.parse_data(w, ref.CERT)
    a = rv['#region']['name_start']
    if isinstance(k, tuple):
        pos = a + k[1]                      # ('at', offset): every byte position in the thorough tier
        if pos >= len(w):
            return None
    else:
        pos = a + (len(w) - 1 - a) * k // 5
    delta = eng.int('delta', 1, 255)
    w[pos] = (w[pos] + delta) % 256
    return bwrap(w)


async def repository(app, face, certs, behaviour, eng):
    """answers Interests for certificate names; behaviour: name(bytes tuple) -> 'nack' | 'silence' | None"""
    import ndn.encoding as enc
    seen = 0
    from .c17 import _wait_send
    while True:
        while seen >= len(face.out):
            await _wait_send(face)
        while seen < len(face.out):
            wire = face.out[seen]
            seen += 1
            n = tuple(bytes(c) for c in enc.parse_interest(wire)[0])
            face.requests.append(n)
            b = behaviour.get(n)
            if isinstance(b, list):
                b = b.pop(0) if b else None          # one answer per attempt
            if b == 'nack':
                await app._receive(0x64, enc.make_network_nack(wire, 150))
            elif b == 'silence':
                pass
            elif isinstance(b, tuple) and b[0] == 'wire':
                await app._receive(6, b[1])              # this attempt is answered with another packet
            elif n in certs:
                await app._receive(6, certs[n])


def run_validation(eng, W, packets, make_validators, order, certs_override=None, behaviour=None):
    """packets: list of wires; make_validators(app) -> list; order: list of (validator idx, packet idx)"""
    import ndn.encoding as enc
    app, face = appenv.make_app('v1')
    face.requests = []
    certs = {}
    for role in ('anchor', 'mid', 'other'):
        n, w = W[role][0], W[role][1]
        certs[tuple(bytes(c) for c in n)] = w
    certs.update(certs_override or {})
    out = {}

    async def main(loop):
        ml = asyncio.ensure_future(app.main_loop())
        await asyncio.sleep(0)
        repo = asyncio.ensure_future(repository(app, face, certs, behaviour or {}, eng))
        try:
            vals = make_validators(app)
        except Exception as e:
            out['ctor_exc'] = e
            repo.cancel()
            app.shutdown()
            return None
        res = []
        for vi, pi in order:
            name, meta, content, sig = enc.parse_data(packets[pi])
            try:
                r = await vals[vi](name, sig)
            except Exception as e:
                r = ('exc', exc_sig(e))
            res.append(r)
        repo.cancel()
        app.shutdown()
        try:
            await ml
        except Exception:
            pass
        return res
    loop, r, err = appenv.run(eng, main, max_steps=20000)
    return r, out, face, loop, err


def h_chain(eng, case):
    import ndn.encoding as enc
    from ndn.app_support.light_versec import Checker, lvs_validator
    from ndn.security.validator.cascade_validator import MemoryKeyStorage
    C = setup()
    W = build_world(eng, case.get('anchor_kind', 'rsa'), case.get('mid_kind', 'ecdsa'))
    depth = case['depth']
    fault = case['fault']
    link = case.get('link', 0)          # 0: packet -> its certificate ; 1: intermediate certificate -> anchor
    certs_override = {}
    behaviour = {}
    expect = True
    mid = W['mid']
    if depth == 2:
        signer = mid[2]
        pname = '/k/a/d/1'
    else:
        signer = W['anchor'][2]
        pname = '/k/r/1'
    if fault == 'issuer-not-allowed' and link == 0:
        signer = W['other'][2] if depth == 2 else mid[2]
        expect = False
    packet = tobytes(enc.make_data(pname, enc.MetaInfo(), b'payload', signer))
    midkey = tuple(bytes(c) for c in mid[0])
    if fault == 'none':
        pass
    elif fault == 'sig-corrupt':
        if link == 0:
            packet = corrupt_sig(eng, packet)
        else:
            certs_override[midkey] = corrupt_sig(eng, mid[1])
        expect = False
    elif fault == 'key-substituted':
        # the certificate named by the packet carries another key (and is properly signed by the anchor)
        import datetime
        from ndn.app_support import security_v2 as sv
        from ndn.encoding import Name, Component
        issuer = mk_signer(case.get('anchor_kind', 'rsa'), None, 'anchor')[0]
        issuer.key_locator_name = W['anchor'][0]
        # same name, other key bits
        env.set_clock(lambda: 1700000000000)
        cname, cwire = sv.new_cert(Name.from_str('/k/a/KEY/2'), Component.from_str('x'), W['other'][3], issuer,
                                   datetime.datetime(2020, 1, 1), datetime.datetime(2040, 1, 1))
        certs_override[tuple(bytes(c) for c in cname)] = tobytes(cwire)
        expect = False
    elif fault in ('cert-nack', 'cert-timeout'):
        behaviour[midkey] = 'nack' if fault == 'cert-nack' else 'silence'
        expect = False
    elif fault == 'unsigned':
        packet = tobytes(enc.make_data(pname, enc.MetaInfo(), b'payload', None))
        expect = False
    elif fault == 'locator-loop':
        # the packet names itself as its key
        from ndn import security as sec
        s2 = mk_signer('ecdsa', pname, 'mid')[0]
        packet = tobytes(enc.make_data(pname, enc.MetaInfo(), b'payload', s2))
        expect = False
    elif fault == 'name-outside-schema':
        packet = tobytes(enc.make_data('/zzz/1', enc.MetaInfo(), b'payload', signer))
        expect = False
    elif fault == 'mid-signed-by-other' and depth == 2:
        # intermediate certificate issued by a key the schema does not allow for it
        import datetime
        from ndn.app_support import security_v2 as sv
        from ndn.encoding import Name, Component
        issuer = W['other'][2]
        env.set_clock(lambda: 1700000000000)
        cname, cwire = sv.new_cert(Name.from_str('/k/a/KEY/2'), Component.from_str('x'), mid[3], issuer,
                                   datetime.datetime(2020, 1, 1), datetime.datetime(2040, 1, 1))
        certs_override[tuple(bytes(c) for c in cname)] = tobytes(cwire)
        expect = False
    if depth == 1 and fault in ('key-substituted', 'cert-nack', 'cert-timeout', 'mid-signed-by-other'):
        eng.reach('fault-not-applicable')
        return
    if link == 1 and fault not in ('sig-corrupt',):
        eng.reach('fault-not-applicable')
        return

    def mk(app):
        checker = Checker(C['model'], {})
        return [lvs_validator(checker, app, W['anchor'][1], MemoryKeyStorage())]
    r, out, face, loop, err = run_validation(eng, W, [packet], mk, [(0, 0)], certs_override, behaviour)
    if 'ctor_exc' in out:
        eng.fail('constructor-accepts-valid-anchor', exc_sig(out['ctor_exc']), repr(out['ctor_exc'])[:120])
        return
    if r is None:
        eng.fail('validation-terminates', 'deadlock')
        return
    got = r[0]
    if isinstance(got, tuple):
        eng.fail('validator-returns-a-verdict', got[1], {'fault': fault})
        return
    eng.check(Iff(bool(got) if isinstance(got, bool) or got is None else got, expect), 'verdict-equals-chain-predicate',
              {'fault': fault, 'depth': depth, 'link': link, 'got': repr(got)},
              sig='%s:%s' % ('accepts' if got else 'rejects', fault))
    if loop.errors:
        exc = loop.errors[0].get('exception')
        eng.fail('no-unhandled-error-in-loop', exc_sig(exc) if exc is not None else '?')
    eng.observe('verdict', bool(got))
    eng.reach('end')


def h_ctor(eng, case):
    """the validator refuses to be built unless the anchor matches the roots of trust and is properly self-signed"""
    import ndn.encoding as enc
    from ndn.app_support.light_versec import Checker, lvs_validator
    from ndn.security.validator.cascade_validator import MemoryKeyStorage
    C = setup()
    kind = case['anchor_kind']
    W = build_world(eng, kind, 'ecdsa')
    variant = case['variant']
    anchor = W['anchor'][1]
    expect_ok = True
    if variant == 'corrupt':
        anchor = corrupt_sig(eng, anchor)
        expect_ok = False
    elif variant == 'wrong-name':
        import datetime
        from ndn.app_support import security_v2 as sv
        from ndn.encoding import Name, Component
        s, pub = mk_signer(kind, '/q/KEY/1', 'anchor')
        n, w = sv.new_cert(Name.from_str('/q/KEY/1'), Component.from_str('self'), pub, s, datetime.datetime(2020, 1, 1),
                           datetime.datetime(2040, 1, 1))
        s.key_locator_name = n
        n, w = sv.new_cert(Name.from_str('/q/KEY/1'), Component.from_str('self'), pub, s, datetime.datetime(2020, 1, 1),
                           datetime.datetime(2040, 1, 1))
        anchor = tobytes(w)
        expect_ok = False
    elif variant == 'signed-by-other-key':
        import datetime
        from ndn.app_support import security_v2 as sv
        from ndn.encoding import Name, Component
        s, pub = mk_signer(kind, '/k/KEY/1', 'anchor')
        s2, _ = mk_signer(kind, '/k/KEY/1', 'intruder')
        n, w = sv.new_cert(Name.from_str('/k/KEY/1'), Component.from_str('self'), pub, s2, datetime.datetime(2020, 1, 1),
                           datetime.datetime(2040, 1, 1))
        anchor = tobytes(w)
        expect_ok = False
    app, face = appenv.make_app('v1')
    err = None
    try:
        lvs_validator(Checker(C['model'], {}), app, anchor, MemoryKeyStorage())
    except ValueError:
        err = 'ValueError'
    except Exception as e:
        err = exc_sig(e)
    if expect_ok:
        eng.check(err is None, 'constructor-checks-anchor', {'err': err, 'kind': kind},
                  sig='refuses-valid-anchor:%s:%s' % (kind, err))
    else:
        eng.check(err == 'ValueError', 'constructor-checks-anchor', {'err': err, 'variant': variant},
                  sig='%s:%s' % (variant, 'accepted' if err is None else err))
    eng.observe('err', err)
    eng.reach('end')


# ---------------------------------------------------------------------------------------------
# generated hierarchies of depth 1..4: the verdict is compared with a reference chain predicate
# ---------------------------------------------------------------------------------------------
def chain_schema(D):
    lines = ['#KEY: "KEY"/_/_/_', '#l0: /"k"/#KEY']
    for i in range(1, D):
        lines.append('#l%d: /"k"/%s/#KEY <= #l%d' % (i, '/'.join('"a%d"' % j for j in range(1, i + 1)), i - 1))
    lines.append('#other: /"k"/"o"/#KEY <= #l0')
    lines.append('#data: /"k"/"d"/_ <= #l%d' % (D - 1))
    lines.append('#odata: /"k"/"od"/_ <= #other')
    return '\n'.join(lines) + '\n'


def _signer(kind, ident, locator):
    s, pub = mk_signer(kind, None, ident)
    s.key_locator_name = locator
    return s, pub


def _tup(name):
    return tuple(bytes(c) for c in name)


def build_chain(eng, D, kinds, fault, link, tk=0):
    """world of depth D: anchor (level 0), certificates of levels 1..D-1, a Data packet signed by level D-1; elements are
    numbered from the packet upwards: element j is signed over link j by level D-1-j.  One fault at one link."""
    import datetime
    import ndn.encoding as enc
    from ndn.app_support import security_v2 as sv
    from ndn.security import DigestSha256Signer
    from ndn.encoding import Name, Component
    env.set_clock(lambda: 1700000000000)
    d0, d1 = datetime.datetime(2020, 1, 1), datetime.datetime(2040, 1, 1)
    X = Component.from_str('x')

    def keyname(i):
        return Name.from_str('/k/' + ''.join('a%d/' % j for j in range(1, i + 1)) + 'KEY/%d' % i)
    # anchor: two passes (the key locator is its own certificate name)
    s0, pub0 = _signer(kinds[0], 'L0', None)
    n0, w0 = sv.new_cert(keyname(0), Component.from_str('self'), pub0, s0, d0, d1)
    s0.key_locator_name = n0
    n0, w0 = sv.new_cert(keyname(0), Component.from_str('self'), pub0, s0, d0, d1)
    W = {'anchor': (n0, tobytes(w0), pub0), 'certs': {}, 'behaviour': {}, 'D': D}
    signers = {0: s0}
    pubs = {0: pub0}
    # the sibling key: properly certified by the anchor, allowed by the schema as #other - but not as a signer of anything
    so, pubo = _signer('ecdsa', 'other', None)
    no, wo = sv.new_cert(Name.from_str('/k/o/KEY/9'), X, pubo, s0, d0, d1)
    so.key_locator_name = no
    W['certs'][_tup(no)] = tobytes(wo)
    # a key whose certificate name fits no key rule of the schema (certified by the anchor all the same)
    sz, pubz = _signer('ecdsa', 'zz', None)
    nz, wz = sv.new_cert(Name.from_str('/k/zz/q/KEY/8'), X, pubz, s0, d0, d1)
    sz.key_locator_name = nz
    W['certs'][_tup(nz)] = tobytes(wz)

    def issuer_for(elem_j, proper):
        """the signer of element j under the fault"""
        if link != elem_j:
            return proper
        if fault == 'issuer-not-allowed':
            return so
        if fault == 'wrong-name-shape':
            return sz
        if fault == 'unsigned':
            return DigestSha256Signer()
        if fault == 'locator-with-digest':
            # the key is named by the full name of a certificate packet that nobody can retrieve: the proper
            # certificate name followed by an implicit digest that is not the digest of any packet
            lvl = D - 1 - elem_j
            s2, _ = _signer(kinds[lvl], 'L%d' % lvl, list(proper.key_locator_name) +
                            [Component.from_bytes(bytes([0x5a] * 32), Component.TYPE_IMPLICIT_SHA256)])
            return s2
        return proper
    names = {0: n0}
    for i in range(1, D):
        j = D - i                                   # element number of the certificate of level i
        si, pubi = _signer(kinds[i], 'L%d' % i, None)
        iss = issuer_for(j, signers[i - 1])
        if link == j and fault == 'self-loop':
            # certified by itself: two passes as for the anchor
            ni, wi = sv.new_cert(keyname(i), X, pubi, si, d0, d1)
            si.key_locator_name = ni
            iss = si
        ni, wi = sv.new_cert(keyname(i), X, pubi, iss, d0, d1)
        si.key_locator_name = ni
        wi = tobytes(wi)
        if link == j and fault == 'sig-corrupt':
            wi = corrupt_sig(eng, wi)
        if link == j and fault == 'tamper':
            wi = tamper(eng, wi, tk)
            if wi is None:
                return None
        if link == j - 1 and fault == 'key-substituted':
            # same certificate name, properly issued, but carrying the sibling's key bits
            ni2, wi2 = sv.new_cert(keyname(i), X, pubo, iss, d0, d1)
            wi = tobytes(wi2)
        if link == j - 1 and fault in ('cert-nack', 'cert-timeout'):
            W['behaviour'][_tup(ni)] = 'nack' if fault == 'cert-nack' else 'silence'
        if link == j - 1 and fault in ('timeout-then-forged', 'nack-then-forged'):
            # two deviations at one link: the first request for the certificate gets no answer (or a Nack), any later
            # request is answered with a certificate whose signature does not verify
            W['behaviour'][_tup(ni)] = ['silence' if fault == 'timeout-then-forged' else 'nack', None, None, None]
            wi = corrupt_sig(eng, wi)
        W['certs'][_tup(ni)] = wi
        signers[i] = si
        pubs[i] = pubi
        names[i] = ni
    pname = Name.from_str('/k/d/1')
    sp = issuer_for(0, signers[D - 1])
    if link == 0 and fault == 'self-loop':
        sp, _ = _signer(kinds[D - 1], 'L%d' % (D - 1), pname)
    packet = tobytes(enc.make_data(pname, enc.MetaInfo(), b'payload', sp))
    if link == 0 and fault == 'sig-corrupt':
        packet = corrupt_sig(eng, packet)
    if link == 0 and fault == 'tamper':
        packet = tamper(eng, packet, tk)
        if packet is None:
            return None
    if fault == 'name-outside-schema':
        packet = tobytes(enc.make_data('/k/e/1', enc.MetaInfo(), b'payload', signers[D - 1]))
    W['packet'] = packet
    W['signers'] = signers
    W['names'] = names
    W['other_signer'] = so
    return W


def ref_verifies(key_bits, w, rv):
    """signature of the element ``w`` (reference-parsed as rv) verifies under key_bits (ideal primitives)"""
    si = rv.get('signature_info') or {}
    typ = si.get('signature_type')
    if 'sigvalue' not in rv['#region']:
        return False
    st, vs, ve = rv['#region']['sigvalue']
    signed = w[rv['#region']['name_start']:st]
    sig = w[vs:ve]
    try:
        if typ == 4:
            h = crypto.HMAC.new(tobytes(bwrap(list(key_bits))))
            h.update(bwrap(signed))
            h.verify(bwrap(sig))
            return True
        hh = crypto.SHA256.new(bwrap(signed))
        if typ == 1:
            crypto.pkcs1_15.new(crypto.RSA.import_key(bwrap(list(key_bits)))).verify(hh, bwrap(sig))
            return True
        if typ == 3:
            crypto.DSS.new(crypto.ECC.import_key(bwrap(list(key_bits))), 'fips-186-3', 'der').verify(hh, bwrap(sig))
            return True
    except ValueError:
        return False
    return False


def ref_chain(W, schema, wire, budget=8, why=None):
    """the chain predicate of the statement, computed from reference-parsed bytes and the source-level schema;
    ``why`` (a list) receives the reason of a negative answer"""
    def no(reason):
        if why is not None and not why:
            why.append(reason)
        return False
    if budget == 0:
        return no('loop')
    w = list(blist(wire))
    try:
        rv = ref.parse_data(w, ref.CERT)
    except ref.RefReject as e:
        return no('element-malformed:' + str(e.args[0]))
    kl = ((rv.get('signature_info') or {}).get('key_locator') or {}).get('name')
    if not kl:
        return no('no-key-locator')
    name = rv['name']
    if not lvsref.ref_check(schema, [bytes(c) for c in name], [bytes(c) for c in kl]):
        return no('link-not-allowed-by-schema')
    klt = tuple(bytes(c) for c in kl)
    if klt == _tup(W['anchor'][0]):
        key = W['anchor'][2]
    else:
        if W['behaviour'].get(klt) or klt not in W['certs']:
            return no('certificate-not-retrievable')
        cw = W['certs'][klt]
        if not ref_chain(W, schema, cw, budget - 1, why):
            return False
        key = ref.parse_data(list(blist(cw)), ref.CERT).get('content')
        if not key:
            return no('certificate-without-key')
    ok = ref_verifies(key, w, rv)
    if why is not None and not why:
        why.append('signature-does-not-verify')      # (used only when ok turns out False)
    return ok


def h_deep(eng, case):
    import ndn.encoding as enc
    from ndn.app_support.light_versec import Checker, lvs_validator, compile_lvs
    from ndn.security.validator.cascade_validator import MemoryKeyStorage
    D = case['depth']
    text = chain_schema(D)
    key = ('deep', D)
    if key not in _C:
        _C[key] = (compile_lvs(text), lvsref.Schema(text))
    model, rschema = _C[key]
    tk = case.get('k', 0)
    if isinstance(tk, list):
        tk = tuple(tk)
    W = build_chain(eng, D, case['kinds'], case['fault'], case['link'], tk)
    if W is None:
        eng.reach('position-beyond-the-element')
        return
    try:
        ref.parse_data(list(blist(W['packet'])), ref.CERT)
    except ref.RefReject:
        eng.reach('tampered-packet-malformed')       # (decoding of ill-formed packets is C07's subject)
        return
    why = []
    expect = ref_chain(W, rschema, W['packet'], 8, why)
    if case['fault'] == 'none':
        eng.check(expect, 'reference-accepts-the-valid-chain')      # the reference itself is not vacuous

    def mk(app):
        from ndn.security.validator.cascade_validator import EmptyKeyStorage
        # the key store is the caller's choice: a fresh memory store, the library's no-caching store, or none given
        st = {'memory': MemoryKeyStorage, 'empty': EmptyKeyStorage}.get(case.get('storage', 'memory'))
        if case.get('storage') == 'default':
            return [lvs_validator(Checker(model, {}), app, W['anchor'][1])]
        return [lvs_validator(Checker(model, {}), app, W['anchor'][1], st())]
    WW = {'anchor': (W['anchor'][0], W['anchor'][1]), 'mid': (W['anchor'][0], W['anchor'][1]),
          'other': (W['anchor'][0], W['anchor'][1])}
    r, out, face, loop, err = run_validation(eng, WW, [W['packet']], mk, [(0, 0)], W['certs'], W['behaviour'])
    if 'ctor_exc' in out:
        eng.fail('constructor-accepts-valid-anchor', exc_sig(out['ctor_exc']), repr(out['ctor_exc'])[:120])
        return
    if r is None:
        eng.fail('validation-terminates', 'deadlock')
        return
    got = r[0]
    if isinstance(got, tuple):
        eng.fail('validator-returns-a-verdict', got[1], {'fault': case['fault'], 'link': case['link']})
        return
    g = bool(got) if isinstance(got, bool) or got is None else got
    eng.check(Iff(g, expect), 'verdict-equals-chain-predicate',
              {'fault': case['fault'], 'depth': D, 'link': case['link'], 'got': repr(got)},
              sig='%s:%s:%s' % ('accepts' if got else 'rejects', case['fault'], why[0] if (why and got) else ''))
    eng.observe('requests', len(face.requests))       # (how often a certificate is asked for is not part of the statement)
    if loop.errors:
        exc = loop.errors[0].get('exception')
        eng.fail('no-unhandled-error-in-loop', exc_sig(exc) if exc is not None else '?')
    eng.observe('verdict', bool(got))
    eng.reach('accepts' if got else 'rejects')


def h_seq(eng, case):
    """one validator instance (default arguments) validates a solver-chosen sequence of packets - valid ones, and ones
    whose signer is genuine and already known to the validator but not allowed to sign that name; every verdict equals
    the reference chain predicate of that packet alone, whatever came before"""
    import ndn.encoding as enc
    from ndn.app_support.light_versec import Checker, lvs_validator, compile_lvs
    D = case['depth']
    text = chain_schema(D)
    key = ('deep', D)
    if key not in _C:
        _C[key] = (compile_lvs(text), lvsref.Schema(text))
    model, rschema = _C[key]
    W = build_chain(eng, D, case['kinds'], 'none', 0)
    leaf, other = W['signers'][D - 1], W['other_signer']
    mk_pkt = lambda name, s: tobytes(enc.make_data(name, enc.MetaInfo(), b'payload', s))
    packets = [W['packet'],                       # /k/d/1 by the leaf key: valid
               mk_pkt('/k/od/1', other),          # by the sibling key, which may sign /k/od/_ : valid
               mk_pkt('/k/d/2', other),           # sibling key on a name it may not sign
               mk_pkt('/k/od/2', leaf),           # leaf key on a name it may not sign
               mk_pkt('/k/e/1', leaf)]            # name outside the schema
    # a packet the leaf key MAY sign by name, with other content, carrying the signature value of packet 0 (a replay of a
    # signature the validator has seen and accepted): it verifies under no key
    fw = list(blist(tobytes(enc.make_data('/k/d/7', enc.MetaInfo(), b'what the key holder never wrote', leaf))))
    g = list(blist(packets[0]))
    _, gvs, gve = ref.parse_data(g, ref.CERT)['#region']['sigvalue']
    _, fvs, fve = ref.parse_data(fw, ref.CERT)['#region']['sigvalue']
    if gve - gvs == fve - fvs:
        fw[fvs:fve] = g[gvs:gve]
        packets.append(tobytes(bwrap(fw)))
    expect = [ref_chain(W, rschema, p) for p in packets]
    eng.check(expect[0] and expect[1] and not any(expect[2:]), 'reference-sanity')
    n = case['len']
    seq = [eng.choice(len(packets), 'pkt%d' % i) for i in range(n)]

    def mk(app):
        return [lvs_validator(Checker(model, {}), app, W['anchor'][1])]
    WW = {'anchor': (W['anchor'][0], W['anchor'][1]), 'mid': (W['anchor'][0], W['anchor'][1]),
          'other': (W['anchor'][0], W['anchor'][1])}
    r, out, face, loop, err = run_validation(eng, WW, packets, mk, [(0, pi) for pi in seq], W['certs'], W['behaviour'])
    if 'ctor_exc' in out or r is None:
        eng.fail('validation-terminates', 'ctor-or-deadlock', repr(out.get('ctor_exc'))[:100])
        return
    for k, (pi, got) in enumerate(zip(seq, r)):
        if isinstance(got, tuple):
            eng.fail('validator-returns-a-verdict', got[1])
            continue
        eng.check(bool(got) == bool(expect[pi]), 'verdict-independent-of-history',
                  {'sequence': seq, 'position': k, 'got': repr(got)},
                  sig='%s-packet-%d-at-position-%d' % ('accepts' if got else 'rejects', pi, min(k, 1)))
    eng.observe('verdicts', [bool(x) if not isinstance(x, tuple) else x for x in r])
    eng.reach('end')


def h_concurrent(eng, case):
    """many packets validated at the same time by one validator: each verdict is the packet's own chain predicate"""
    import ndn.encoding as enc
    from ndn.app_support.light_versec import Checker, lvs_validator, compile_lvs
    D, N = case['depth'], case['packets']
    text = chain_schema(D)
    key = ('deep', D)
    if key not in _C:
        _C[key] = (compile_lvs(text), lvsref.Schema(text))
    model, rschema = _C[key]
    W = build_chain(eng, D, case['kinds'], 'none', 0)
    leaf, other = W['signers'][D - 1], W['other_signer']
    bad = eng.choice(N, 'bad')                       # one of them is signed by a key that may not sign it
    packets = []
    for i in range(N):
        s = other if i == bad else leaf
        packets.append(tobytes(enc.make_data('/k/d/%d' % i, enc.MetaInfo(), b'payload', s)))
    expect = [ref_chain(W, rschema, p) for p in packets]
    app, face = appenv.make_app('v1')
    face.requests = []
    out = {}

    async def main(loop):
        ml = asyncio.ensure_future(app.main_loop())
        await asyncio.sleep(0)
        repo = asyncio.ensure_future(repository(app, face, W['certs'], W['behaviour'], eng))
        val = lvs_validator(Checker(model, {}), app, W['anchor'][1])

        async def one(p):
            name, meta, content, sig = enc.parse_data(p)
            try:
                return await val(name, sig)
            except Exception as e:
                return ('exc', exc_sig(e))
        if case.get('cancel'):
            # one of the callers gives up (task cancelled, a wait_for around the validation expires) while the
            # certificate fetches are in flight: that is this caller's business only
            tasks = [asyncio.ensure_future(one(p)) for p in packets]
            await asyncio.sleep(0)
            await asyncio.sleep(0)
            gone = eng.choice(N, 'cancelled')
            tasks[gone].cancel()
            res = []
            for i, t in enumerate(tasks):
                try:
                    res.append(await t)
                except asyncio.CancelledError:
                    res.append(('exc', 'CancelledError'))
            res[gone] = ('cancelled',)                 # whatever the caller that gave up sees is not a verdict
        else:
            res = await asyncio.gather(*[one(p) for p in packets])
        repo.cancel()
        app.shutdown()
        try:
            await ml
        except Exception:
            pass
        return res
    loop, r, err = appenv.run(eng, main, max_steps=200000)
    if r is None:
        eng.fail('validation-terminates', 'deadlock')
        return
    for i, got in enumerate(r):
        if got == ('cancelled',):
            continue
        if isinstance(got, tuple):
            eng.fail('validator-returns-a-verdict', got[1], {'packet': i, 'another_validation_was_cancelled': bool(case.get('cancel'))})
            continue
        eng.check(bool(got) == bool(expect[i]), 'verdict-independent-of-history',
                  {'packet': i, 'of': N, 'got': repr(got), 'expected': bool(expect[i])},
                  sig='%s-while-%d-others-are-validated' % ('accepts' if got else 'rejects', N - 1))
    eng.observe('accepted', sum(1 for g in r if g is True))
    eng.reach('end')


CTOR_SCHEMAS = {
    # two roots of trust whose names are disjoint: no anchor matches both
    'two-roots-disjoint': '#KEY: "KEY"/_/_/_\n#root: /"k"/#KEY\n#root2: /"j"/#KEY\n#d: /"k"/"d"/_ <= #root\n#e: /"j"/"e"/_ <= #root2\n',
    # the anchor name also matches a rule that is not a root of trust
    'extra-nonroot-match': '#KEY: "KEY"/_/_/_\n#root: /"k"/#KEY\n#anykey: /_/#KEY <= #root\n#d: /"k"/"d"/_ <= #anykey\n',
    # two roots with overlapping names: /k/KEY/.. matches both, any other first component only the second
    'two-roots-overlap': '#KEY: "KEY"/_/_/_\n#root: /"k"/#KEY\n#root2: /_/#KEY\n#d: /"k"/"d"/_ <= #root\n#e: /"j"/"e"/_ <= #root2\n',
    # no rule is signed: no roots of trust at all
    'no-signing': '#KEY: "KEY"/_/_/_\n#root: /"k"/#KEY\n',
}


def ref_roots(text):
    """roots of trust by the source text: rules named as a signer that have no signer themselves"""
    rules = lvsref.parse(text)
    signed = set(r.name for r in rules if r.signers)
    return set(s for r in rules for s in r.signers if s not in signed)


def h_ctor_roots(eng, case):
    """anchor vs roots of trust, for every first name component of the anchor (one symbolic byte)"""
    import datetime
    from ndn.app_support import security_v2 as sv
    from ndn.app_support.light_versec import Checker, lvs_validator, compile_lvs
    from ndn.security.validator.cascade_validator import MemoryKeyStorage
    from ndn.encoding import Component
    text = CTOR_SCHEMAS[case['schema']]
    kind = case['anchor_kind']
    env.set_clock(lambda: 1700000000000)
    d0, d1 = datetime.datetime(2020, 1, 1), datetime.datetime(2040, 1, 1)
    first = bwrap([8, 1] + blist(eng.bytes('first', 1)))
    keyname = [first, Component.from_str('KEY'), Component.from_str('1')]
    s, pub = mk_signer(kind, None, 'anchor')
    s.key_locator_name = keyname
    name, wire = sv.new_cert(keyname, Component.from_str('self'), pub, s, d0, d1)
    s.key_locator_name = name
    name, wire = sv.new_cert(keyname, Component.from_str('self'), pub, s, d0, d1)
    ref = lvsref.Schema(text)
    roots = ref_roots(text)
    ta = set(r for r, b in lvsref.ref_match(ref, list(name), {}))
    expect_ok = bool(ta) and roots <= ta
    app, face = appenv.make_app('v1')
    err = None
    try:
        lvs_validator(Checker(compile_lvs(text), {}), app, tobytes(wire), MemoryKeyStorage())
    except ValueError:
        err = 'ValueError'
    except Exception as e:
        err = exc_sig(e)
    if expect_ok:
        eng.check(err is None, 'constructor-checks-anchor', {'err': err, 'schema': case['schema'], 'anchor-matches': sorted(ta)},
                  sig='refuses-anchor-matching-all-roots:%s' % err)
    else:
        eng.check(err == 'ValueError', 'constructor-checks-anchor', {'schema': case['schema'], 'roots': sorted(roots),
                                                                     'anchor-matches': sorted(ta)},
                  sig='anchor-not-matching-all-roots:%s' % ('accepted' if err is None else err))
    eng.observe('err', err)
    eng.reach('ok' if expect_ok else 'refused')


def h_history(eng, case):
    """two validator instances with different anchors, built with DEFAULT arguments; the verdict for a packet does not
    depend on what was validated before, and by whom"""
    import ndn.encoding as enc
    from ndn.app_support.light_versec import Checker, lvs_validator
    C = setup()
    WA = build_world(eng, 'rsa', 'ecdsa', tag='')
    WB = build_world(eng, 'rsa', 'ecdsa', tag='b')
    # packet signed under hierarchy A
    pktA = tobytes(enc.make_data('/k/a/d/1', enc.MetaInfo(), b'payload', WA['mid'][2]))
    certs = {}
    for W in (WA, WB):
        for role in ('anchor', 'mid', 'other'):
            certs[tuple(bytes(c) for c in W[role][0])] = W[role][1]

    def mk(app):
        if case.get('shared_storage'):
            # both validators are handed the SAME key store by the application; merely constructing a validator
            # must not put anything into it that changes another validator's verdict
            from ndn.security.validator.cascade_validator import MemoryKeyStorage
            st = MemoryKeyStorage()
            vB = lvs_validator(Checker(C['model'], {}), app, WB['anchor'][1], st)
            vA = lvs_validator(Checker(C['model'], {}), app, WA['anchor'][1], st)
            return [vA, vB]
        vA = lvs_validator(Checker(C['model'], {}), app, WA['anchor'][1])
        vB = lvs_validator(Checker(C['model'], {}), app, WB['anchor'][1])
        return [vA, vB]
    # a second packet signed with the same (genuine) key, whose key locator names ANOTHER certificate of that key
    # - other issuer id / version - which was never issued and cannot be retrieved: no chain, must be rejected,
    # whatever the validator has seen before
    from ndn.encoding import Name
    s2 = mk_signer('ecdsa', None, 'mid')[0]
    ghost = [bytes(c) for c in WA['mid'][0][:-2]] + [bytes(c) for c in Name.from_str('/y/v=7')]
    s2.key_locator_name = ghost
    pktGhost = tobytes(enc.make_data('/k/a/d/2', enc.MetaInfo(), b'payload', s2))
    behaviour = {tuple(ghost): ['nack', 'silence'][eng.choice(2, 'ghost_fetch')]}
    order = [[(0, 0), (1, 0)], [(1, 0), (0, 0)], [(1, 0)], [(0, 0), (0, 0), (1, 0)],
             [(0, 1)], [(0, 0), (0, 1)], [(0, 0), (1, 1), (0, 1)]][case['order']]
    expect_pkt = {0: lambda vi: vi == 0, 1: lambda vi: False}
    r, out, face, loop, err = run_validation(eng, WA, [pktA, pktGhost], mk, order, certs, behaviour)
    if 'ctor_exc' in out or r is None:
        eng.fail('validation-terminates', 'ctor-or-deadlock', repr(out.get('ctor_exc'))[:100])
        return
    for (vi, pi), got in zip(order, r):
        if isinstance(got, tuple):
            eng.fail('validator-returns-a-verdict', got[1])
            continue
        exp = expect_pkt[pi](vi)   # only the validator anchored in hierarchy A may accept the genuine packet
        eng.check(bool(got) == exp, 'verdict-independent-of-history', {'validator': 'AB'[vi], 'got': repr(got),
                                                                      'order': repr(order)},
                  sig='validator-%s-%s-packet-%d-after-%d-earlier-validations' % (
                      'AB'[vi], 'accepts' if got else 'rejects', pi, order.index((vi, pi))))
    eng.reach('end')


def h_repair(eng, case):
    """the set of retrievable certificates CHANGES between two validations by one validator: first a certificate on the
    chain cannot be fetched (Nack / silence) or a forged one is served under its name, then the repository answers
    properly.  Each verdict is the chain predicate of the world at that moment: the first one rejects, the second
    accepts - nothing the first validation saw may stick"""
    import ndn.encoding as enc
    from ndn.app_support.light_versec import Checker, lvs_validator, compile_lvs
    D = case['depth']
    text = chain_schema(D)
    key = ('deep', D)
    if key not in _C:
        _C[key] = (compile_lvs(text), lvsref.Schema(text))
    model, rschema = _C[key]
    W = build_chain(eng, D, case['kinds'], 'none', 0)
    leaf = W['signers'][D - 1]
    packets = [W['packet'], tobytes(enc.make_data('/k/d/2', enc.MetaInfo(), b'payload', leaf))]
    eng.check(ref_chain(W, rschema, packets[0]) and ref_chain(W, rschema, packets[1]), 'reference-sanity')
    lvl = 1 + eng.choice(D - 1, 'level')                     # whose certificate misbehaves first
    kind = ['nack', 'silence', 'forged'][eng.choice(3, 'kind')]
    cn = _tup(W['names'][lvl])
    if kind == 'forged':
        W['behaviour'][cn] = [('wire', tobytes(corrupt_sig(eng, W['certs'][cn])))]
    else:
        W['behaviour'][cn] = [kind]
    second = eng.choice(2, 'second')                         # the same packet again, or another one of the same key

    def mk(app):
        return [lvs_validator(Checker(model, {}), app, W['anchor'][1])]
    WW = {'anchor': (W['anchor'][0], W['anchor'][1]), 'mid': (W['anchor'][0], W['anchor'][1]),
          'other': (W['anchor'][0], W['anchor'][1])}
    r, out, face, loop, err = run_validation(eng, WW, packets, mk, [(0, 0), (0, second), (0, 0)], W['certs'],
                                             W['behaviour'])
    if 'ctor_exc' in out or r is None:
        eng.fail('validation-terminates', 'ctor-or-deadlock', repr(out.get('ctor_exc'))[:100])
        return
    for k, got in enumerate(r):
        if isinstance(got, tuple):
            eng.fail('validator-returns-a-verdict', got[1])
            return
    eng.check(not r[0], 'verdict-equals-chain-predicate', {'phase': 1, 'kind': kind, 'level': lvl}, sig='accepts:' + kind)
    eng.check(bool(r[1]) and bool(r[2]), 'verdict-independent-of-history',
              {'kind': kind, 'level': lvl, 'verdicts': [bool(x) for x in r]},
              sig='rejects-after-the-repository-recovered')
    eng.observe('verdicts', [bool(x) for x in r])
    eng.reach('end')


HARNESSES = {'repair': h_repair, 'concurrent': h_concurrent, 'seq': h_seq, 'deep': h_deep, 'ctor_roots': h_ctor_roots, 'chain': h_chain, 'ctor': h_ctor, 'history': h_history}

FAULTS = ['none', 'issuer-not-allowed', 'sig-corrupt', 'key-substituted', 'cert-nack', 'cert-timeout', 'unsigned',
          'locator-loop', 'name-outside-schema', 'mid-signed-by-other']


def cases(tier, seed):
    cs = []
    for depth in (1, 2):
        for f in FAULTS:
            cs.append(('chain', {'depth': depth, 'fault': f, 'link': 0}, {'weight': 5}))
        if depth == 2:
            cs.append(('chain', {'depth': 2, 'fault': 'sig-corrupt', 'link': 1}, {'weight': 5}))
    for ak, mk_ in (('ecdsa', 'rsa'), ('rsa', 'rsa'), ('hmac', 'ecdsa')):
        cs.append(('chain', {'depth': 2, 'fault': 'none', 'link': 0, 'anchor_kind': ak, 'mid_kind': mk_}, {'weight': 5}))
    for kind in ('rsa', 'ecdsa', 'hmac'):
        for v in ('valid', 'corrupt', 'wrong-name', 'signed-by-other-key'):
            cs.append(('ctor', {'anchor_kind': kind, 'variant': v}))
    deep_faults = ['none', 'sig-corrupt', 'issuer-not-allowed', 'wrong-name-shape', 'key-substituted', 'cert-nack',
                   'cert-timeout', 'unsigned', 'self-loop', 'name-outside-schema', 'timeout-then-forged', 'nack-then-forged',
                   'locator-with-digest']
    kind_sets = {1: [['rsa'], ['ecdsa'], ['hmac']], 2: [['rsa', 'ecdsa'], ['ecdsa', 'hmac']],
                 3: [['ecdsa', 'rsa', 'ecdsa'], ['hmac', 'ecdsa', 'rsa']], 4: [['rsa', 'ecdsa', 'hmac', 'ecdsa']]}
    for D in (1, 2, 3) if tier == 'quick' else (1, 2, 3, 4):
        for ki, kinds in enumerate(kind_sets[D]):
            if tier == 'quick' and ki > 0 and D > 1:
                continue
            for f in deep_faults:
                for link in range(D):
                    if f in ('none', 'name-outside-schema') and link > 0:
                        continue
                    if f in ('key-substituted', 'cert-nack', 'cert-timeout', 'timeout-then-forged', 'nack-then-forged') and link >= D - 1:
                        continue               # the certificate behind the last link is the anchor itself
                    cs.append(('deep', {'depth': D, 'kinds': kinds, 'fault': f, 'link': link}, {'weight': 5}))
            for link in range(D):
                for k in range(6):
                    cs.append(('deep', {'depth': D, 'kinds': kinds, 'fault': 'tamper', 'link': link, 'k': k}, {'weight': 5}))
    if tier != 'quick':
        # every byte position of every element of a depth-2 and a depth-3 chain
        for D, kinds in ((2, ['rsa', 'ecdsa']), (3, ['hmac', 'ecdsa', 'rsa'])):
            for link in range(D):
                for off in range(0, 460):
                    cs.append(('deep', {'depth': D, 'kinds': kinds, 'fault': 'tamper', 'link': link, 'k': ['at', off]}))
    for D, kinds in ((1, ['ecdsa']), (2, ['rsa', 'ecdsa']), (3, ['hmac', 'ecdsa', 'rsa'])):
        for st in ('empty', 'default'):
            for f in ('none', 'sig-corrupt', 'issuer-not-allowed', 'cert-nack'):
                if f == 'cert-nack' and D == 1:
                    continue
                cs.append(('deep', {'depth': D, 'kinds': kinds, 'fault': f, 'link': 0, 'storage': st}, {'weight': 5}))
    for D, kinds in ((2, ['rsa', 'ecdsa']),) if tier == 'quick' else ((1, ['ecdsa']), (2, ['rsa', 'ecdsa']), (3, ['hmac', 'ecdsa', 'rsa'])):
        for n in (1, 2, 3):
            cs.append(('seq', {'depth': D, 'kinds': kinds, 'len': n}, {'weight': 5 ** n}))
    # the repository recovers between two validations by the same validator
    for D, kinds in ((2, ['rsa', 'ecdsa']), (3, ['hmac', 'ecdsa', 'rsa'])) if tier == 'quick' else \
            ((2, ['rsa', 'ecdsa']), (3, ['hmac', 'ecdsa', 'rsa']), (4, ['rsa', 'ecdsa', 'hmac', 'ecdsa'])):
        cs.append(('repair', {'depth': D, 'kinds': kinds}, {'weight': 10}))
    for D, kinds, N in ((2, ['rsa', 'ecdsa'], 20), (3, ['hmac', 'ecdsa', 'rsa'], 12)) if tier == 'quick' else \
            ((1, ['ecdsa'], 40), (2, ['rsa', 'ecdsa'], 40), (3, ['hmac', 'ecdsa', 'rsa'], 24), (4, ['rsa', 'ecdsa', 'hmac', 'ecdsa'], 16)):
        cs.append(('concurrent', {'depth': D, 'kinds': kinds, 'packets': N}, {'weight': 30}))
        cs.append(('concurrent', {'depth': D, 'kinds': kinds, 'packets': 3, 'cancel': True}, {'weight': 10}))
    for sch in CTOR_SCHEMAS:
        for kind in ('rsa', 'hmac'):
            cs.append(('ctor_roots', {'schema': sch, 'anchor_kind': kind}))
    for o in range(7):
        cs.append(('history', {'order': o}, {'weight': 5}))
    cs.append(('history', {'order': 2, 'shared_storage': True}, {'weight': 5}))      # B asked first, A only constructed
    cs.append(('history', {'order': 4, 'shared_storage': True}, {'weight': 5}))
    return cs
