# C18 -- state-vector sync merges monotonically and announces exactly when needed.
# Real code executed symbolically: SvsInst.sync_handler / aggregate / on_timer / express_sync_interest / new_data /
# start / sample_*_timer, StateVecWrapper / StateVec / StateVecEntry codec (encode and parse with symbolic sequence
# numbers), Name.to_bytes / from_bytes; asyncio Event / wait_for on the virtual-time loop.
import asyncio
from symex import vloop, core
from symex.api import And, Or, Not, Implies, Iff, Ite, blist, bwrap, beq, exc_sig, as_int, tobytes
from symex.core import SInt, SFix
from . import env, appenv, ref

PROPERTY = 'C18'
INFO = {
    'explanation': 'C18: (one step from an arbitrary valid state) local vector, aggregate vector, own sequence number and '
                   'protocol state are symbolic, a received vector with symbolic presence and sequence numbers goes '
                   'through the real encoder and decoder, and the post-state is compared with the entry-wise-maximum model; '
                   '(timer step) leaving suppression emits a sync Interest iff the local vector is newer than the '
                   'aggregate in some entry; (period) steady -> suppression -> further vectors -> timer on the virtual '
                   'clock; (publish) new_data raises the own number by one and promptly emits the full vector.',
    'bounds': {'quick': {'node_ids': 'self, A, B plus one unknown id', 'sequence_numbers': '[0,2^64) each',
                         'received_entries': '10 subsets / orders of the ids (own entry first, last, in the middle), plus malformed '
                                             'entries (empty id, missing number)',
                         'period': 'up to 2 vectors heard during suppression'}},
    'outside': ['more than 4 node ids', 'real timer jitter (the random deviation is fixed to its extremes by choice)'],
    'assumptions': ['time.time() = virtual loop time; secrets.randbits chosen among {0, 65535}',
                    'pre-states satisfy the representation invariant local[self] == own sequence number'],
}
MANDATORY = {'step': ['merge-is-entrywise-max'], 'timer': ['announce-iff-newer'], 'publish': ['publish-announces']}

IDS = ['/n/self', '/n/a', '/n/b', '/n/u']


def _ids():
    from ndn.encoding import Name
    return [Name.to_bytes(x) for x in IDS]


class StubApp:
    def __init__(self):
        self.sent = []
        self.handlers = {}

    def express(self, name, validator, app_param=None, signer=None, **kw):
        self.sent.append(name)
        return None

    def attach_handler(self, name, handler, validator=None):
        self.handlers[tuple(bytes(c) for c in name)] = handler

    def detach_handler(self, name):
        self.handlers.pop(tuple(bytes(c) for c in name), None)


class TimeStub:
    def __init__(self, loop_holder):
        self.h = loop_holder

    def time(self):
        loop = self.h.get('loop')
        return loop.time() if loop is not None else SFix(0)


def _patch_env(eng, holder):
    import ndn.app_support.svs.sync as sync

    class Secrets:
        @staticmethod
        def randbits(n):
            return [0, 65535][eng.choice(2, 'randbits')]
    sync.time = TimeStub(holder)
    sync.secrets = Secrets


def decode_vector(comp):
    """reference decoding of a StateVecWrapper component -> list of (id bytes, seq)"""
    b = blist(comp)
    o = ref.outer(b, 0xc9)
    out = []
    for t in ref.rd_seq(b, o.vs, o.ve):
        if t.typ != 0xca:
            raise ref.RefReject('unexpected element')
        ent = ref.rd_seq(b, t.vs, t.ve)
        if len(ent) != 2 or ent[0].typ != 7 or ent[1].typ != 0xcc:
            raise ref.RefReject('entry shape')
        out.append((bytes(b[ent[0].start:ent[0].ve]), ref.rd_uint(b, ent[1])))
    return out


def make_vector_component(entries):
    """encode a vector with the real encoder. entries: list of (id bytes | None, seq | None)"""
    from ndn.app_support.svs.tlv import StateVecWrapper, StateVec, StateVecEntry
    from ndn.encoding import Name
    w = StateVecWrapper()
    w.val = StateVec()
    w.val.entries = []
    for nid, seq in entries:
        e = StateVecEntry()
        if nid is not None:
            e.node_id = Name.from_bytes(nid)
        e.seq_no = seq
        w.val.entries.append(e)
    return tobytes(w.encode())


RANGES = {'full': (0, 2 ** 64 - 1), 'b': (0, 255), 'q': (2 ** 32, 2 ** 64 - 1)}


def sym_vec(eng, tag, ids, present=None):
    """dict id -> symbolic seq for a solver-chosen subset of ids"""
    out = {}
    for i, nid in enumerate(ids):
        if present is None:
            p = eng.choice(2, '%s.%d?' % (tag, i))
        else:
            p = present[i]
        if p:
            out[nid] = eng.int('%s.%d' % (tag, i), 0, 2 ** 64 - 1)
    return out


def _mk_inst(eng, holder, missing_log):
    from ndn.app_support.svs.sync import SvsInst
    _patch_env(eng, holder)
    # another instance exists in the same process (a node may take part in several sync groups) and has state of its own
    decoy = SvsInst('/grp2', '/n/decoy', lambda i: None, None, None)
    decoy.local_sv[b'\x07\x03\x08\x01d'] = 5
    decoy.agg_sv[b'\x07\x03\x08\x01d'] = 5
    holder['decoy'] = decoy
    inst = SvsInst('/grp', IDS[0], lambda i: missing_log.append(1), None, None)
    inst.ndn_app = StubApp()
    return inst


class Ev:
    def __init__(self):
        self.n = 0

    def set(self):
        self.n += 1

    def clear(self):
        pass


def h_step(eng, case):
    """sync_handler from an arbitrary valid state"""
    from ndn.app_support.svs.sync import SvsState
    from ndn.encoding import Name, Component
    ids = _ids()
    holder = {}
    missing = []
    inst = _mk_inst(eng, holder, missing)
    self_seq = eng.int('self_seq', 0, 2 ** 64 - 1)
    local = sym_vec(eng, 'local', ids[1:3], case.get('local_present'))
    local[ids[0]] = self_seq
    agg = sym_vec(eng, 'agg', ids[:3], case.get('agg_present'))
    supp = case['state'] == 'suppression'
    inst.self_seq = self_seq
    inst.local_sv = dict(local)
    inst.agg_sv = dict(agg)
    inst.state = SvsState.SyncSuppression if supp else SvsState.SyncSteady
    inst.timer_rst_event = Ev()
    inst.running = True
    # received vector
    rid = [ids[i] for i in case['recv_ids']]
    lo, hi = RANGES[case.get('range', 'full')]
    recv = [(nid, eng.int('recv.%d' % i, lo, hi)) for i, nid in enumerate(rid)]
    entries = list(recv)
    mal = case.get('malformed')
    if mal == 'empty-id':
        entries.insert(0, (None, 5))
    elif mal == 'no-seq':
        entries.insert(0, (ids[1] if ids[1] not in rid else ids[3], None))
    comp = make_vector_component(entries)
    name = Name.from_str('/grp') + [comp, Component.from_bytes(bytes(32), 2)]
    if mal == 'short-name':
        # (the handler renders the name for its log message: keep this one concrete)
        name = Name.from_str('/grp') + [make_vector_component([(ids[1], 7)])]
    elif mal == 'garbage':
        name[-2] = bwrap([0xc9, 3, 0xca, 9, 1])       # well-formed component, undecodable vector
    try:
        inst.sync_handler(name, None, None, {})
    except Exception as e:
        eng.fail('handler-returns-normally', exc_sig(e), {'malformed': mal})
        return
    # reference
    rdict = {}
    for nid, seq in recv:
        rdict[nid] = seq
    if mal in ('short-name', 'garbage'):
        accepted = False
        ignored = True
    else:
        ignored = False
        accepted = True
        if ids[0] in rdict:
            too_new = rdict[ids[0]] > self_seq
            if too_new:
                accepted = False
    keys = sorted(set(local) | set(rdict))
    raised = False
    for k in keys:
        lv = local.get(k)
        got = inst.local_sv.get(k)
        if not accepted or k not in rdict:
            if lv is None:
                eng.check(got is None, 'merge-is-entrywise-max', sig='entry-created')
            else:
                eng.check(got is not None and got == lv, 'merge-is-entrywise-max', sig='entry-changed-without-cause')
            continue
        rv = rdict[k]
        base = lv if lv is not None else 0
        newer = rv > base
        if newer:
            raised = True
            eng.check(got is not None and got == rv, 'merge-is-entrywise-max', sig='not-raised-to-received')
        else:
            if lv is None:
                eng.check(got is None or got == 0, 'merge-is-entrywise-max', sig='entry-created')
            else:
                eng.check(got is not None and got == lv, 'merge-is-entrywise-max', sig='decreased-or-changed')
    eng.check(len(missing) == (1 if (accepted and raised) else 0), 'missing-data-callback-iff-raised',
              {'calls': len(missing), 'raised': raised, 'accepted': accepted})
    if not accepted:
        eng.check(inst.state == (SvsState.SyncSuppression if supp else SvsState.SyncSteady), 'ignored-vector-changes-nothing')
        same = True
        for k in set(agg) | set(inst.agg_sv):
            a, b = agg.get(k), inst.agg_sv.get(k)
            same = And(same, (a is None) == (b is None)) if (a is None or b is None) else And(same, a == b)
        eng.check(same, 'ignored-vector-changes-nothing')
    elif not supp and inst.state == SvsState.SyncSuppression:
        # a suppression period starts with this vector: the aggregate is the merge of the vectors heard DURING the
        # period, i.e. exactly this vector - whatever an earlier period left behind
        for k in sorted(set(agg) | set(rdict)):
            r = rdict.get(k)
            got = inst.agg_sv.get(k)
            if r is None:
                eng.check(got is None or got == 0, 'aggregate-restarts-with-the-period', sig='stale-aggregate-entry-kept')
            else:
                eng.check(got is not None and got == r, 'aggregate-restarts-with-the-period', sig='aggregate-not-the-heard-vector')
    elif supp:
        # aggregate = entry-wise max(aggregate, received)
        for k in sorted(set(agg) | set(rdict)):
            a = agg.get(k)
            r = rdict.get(k)
            got = inst.agg_sv.get(k)
            if r is None:
                eng.check((got is None) if a is None else (got is not None and got == a), 'aggregate-is-entrywise-max',
                          sig='aggregate-entry-changed-without-cause')
            else:
                base = a if a is not None else 0
                exp = Ite(r > base, r, base)
                eng.check(got is not None and got == exp, 'aggregate-is-entrywise-max', sig='aggregate-not-max')
    eng.observe('missing', len(missing))
    eng.reach('end')


def h_timer(eng, case):
    """leaving suppression: a sync Interest is emitted iff local is newer than the aggregate in some entry"""
    from ndn.app_support.svs.sync import SvsState
    ids = _ids()
    holder = {}
    missing = []
    inst = _mk_inst(eng, holder, missing)
    self_seq = eng.int('self_seq', 0, 2 ** 64 - 1)
    local = sym_vec(eng, 'local', ids[1:3], case['local_present'])
    local[ids[0]] = self_seq
    agg = sym_vec(eng, 'agg', ids[:3], case['agg_present'])
    stub = inst.ndn_app

    async def main(loop):
        holder['loop'] = loop
        inst.start(stub)
        inst.self_seq = self_seq
        inst.local_sv = dict(local)
        inst.agg_sv = dict(agg)
        inst.state = SvsState.SyncSuppression
        inst.next_sync_timing = loop.time() + 0.2
        inst.timer_rst_event.set()
        await vloop.sleep_until(loop, loop.at_ms(250))
        n_after_suppression = len(stub.sent)
        st = inst.state
        inst.running = False
        inst.timer_rst_event.set()
        await asyncio.sleep(0)
        await asyncio.sleep(0)
        return n_after_suppression, st
    loop, r, err = appenv.run(eng, main)
    if err or r is None:
        eng.fail('timer-fires', 'deadlock')
        return
    n, st = r
    newer = False
    for k, lv in local.items():
        a = agg.get(k)
        newer = Or(newer, lv > (a if a is not None else 0))
    eng.check(Iff(n >= 1, newer), 'announce-iff-newer', {'sent': n}, sig='sent-%d' % n)
    eng.check(n <= 1, 'announce-iff-newer', sig='sent-more-than-once')
    eng.check(st == SvsState.SyncSteady, 'suppression-ends')
    if n >= 1:
        try:
            vec = dict(decode_vector(stub.sent[0][-1]))
            ok = set(vec) == set(local)
            for k in local:
                if k in vec:
                    ok = And(ok, vec[k] == local[k])
            eng.check(ok, 'announced-vector-is-local')
        except ref.RefReject as e:
            eng.fail('announced-vector-is-local', 'undecodable:' + e.args[0])
    if loop.errors:
        exc = loop.errors[0].get('exception')
        eng.fail('no-unhandled-error-in-loop', exc_sig(exc) if exc is not None else '?')
    eng.observe('sent', n)
    eng.reach('end')


def h_publish(eng, case):
    from ndn.app_support.svs.sync import SvsState
    ids = _ids()
    holder = {}
    missing = []
    inst = _mk_inst(eng, holder, missing)
    seq0 = eng.int('seq0', 0, 2 ** 64 - 1 - case['publications'])
    others = sym_vec(eng, 'local', ids[1:3], case['present'])
    stub = inst.ndn_app
    k = case['publications']
    if case.get('suppressed'):
        old = eng.int('old', 0, 2 ** 64 - 1)
        eng.assume(old < others[ids[1]])
    if case.get('from_callback'):
        newer = eng.int('newer', 0, 2 ** 64 - 1)
        eng.assume(newer > others[ids[1]])

    async def main(loop):
        holder['loop'] = loop
        inst.self_seq = 0
        inst.start(stub)
        # let the start-up announcement (timer armed with 0) go out first: it must not be mistaken for the
        # announcement of a publication; the symbolic state is installed afterwards (representation invariant:
        # local[self] == own sequence number)
        await vloop.sleep_until(loop, loop.at_ms(1))
        inst.self_seq = seq0
        inst.local_sv[inst.self_node_id] = seq0
        for nid, v in others.items():
            inst.local_sv[nid] = v
        if case.get('suppressed'):
            # an outdated vector has just been heard: the instance is waiting out a suppression period
            from ndn.encoding import Name, Component
            comp = make_vector_component([(ids[1], old)])
            inst.sync_handler(Name.from_str('/grp') + [comp, Component.from_bytes(bytes(32), 2)], None, None, {})
            holder['state'] = inst.state
            await asyncio.sleep(0)
        n0 = len(stub.sent)
        rets = []
        if case.get('from_callback'):
            # the application publishes from inside the missing-data callback (it is told to be non-blocking, not to
            # stay away from the instance): a vector that raises one entry arrives, the callback calls new_data()
            from ndn.encoding import Name, Component
            inst.on_missing_data = lambda i: rets.append(inst.new_data())
            comp = make_vector_component([(ids[1], newer)])
            inst.sync_handler(Name.from_str('/grp') + [comp, Component.from_bytes(bytes(32), 2)], None, None, {})
            await vloop.sleep_until(loop, loop.at_ms(11))
        for j in range(0 if case.get('from_callback') else k):
            rets.append(inst.new_data())
            await vloop.sleep_until(loop, loop.at_ms(1 + 10 * (j + 1)))
        n1 = len(stub.sent)
        inst.stop()
        await asyncio.sleep(0)
        await asyncio.sleep(0)
        return n0, n1, rets
    loop, r, err = appenv.run(eng, main)
    if err or r is None:
        eng.fail('publish-announces', 'deadlock')
        return
    n0, n1, rets = r
    if case.get('from_callback'):
        eng.check(len(rets) == 1, 'missing-data-callback-iff-raised', {'calls': len(rets)})
        others = dict(others)
        others[ids[1]] = newer
    if case.get('suppressed'):
        eng.check(holder.get('state') == SvsState.SyncSuppression, 'outdated-remote-starts-suppression')
    for j, ret in enumerate(rets):
        eng.check(ret == seq0 + j + 1, 'publish-increments-by-one')
    eng.check(inst.self_seq == seq0 + k, 'publish-increments-by-one')
    eng.check(n1 - n0 >= k, 'publish-announces', {'sent': n1 - n0, 'publications': k}, sig='sent-%d-for-%d' % (n1 - n0, k))
    if n1 > n0:
        try:
            vec = dict(decode_vector(stub.sent[n1 - 1][-1]))
            ok = ids[0] in vec and set(vec) == set(others) | {ids[0]}
            if ok:
                ok = vec[ids[0]] == seq0 + k
                for nid, v in others.items():
                    ok = And(ok, vec[nid] == v)
            eng.check(ok, 'announced-vector-is-local')
        except ref.RefReject as e:
            eng.fail('announced-vector-is-local', 'undecodable:' + e.args[0])
    if loop.errors:
        exc = loop.errors[0].get('exception')
        eng.fail('no-unhandled-error-in-loop', exc_sig(exc) if exc is not None else '?')
    eng.reach('end')


def h_period(eng, case):
    """steady -> (vector making this node answer) -> suppression, further vectors, timer: emit iff local newer than
    the merge of everything heard during the period"""
    from ndn.app_support.svs.sync import SvsState
    from ndn.encoding import Name, Component
    ids = _ids()
    holder = {}
    missing = []
    inst = _mk_inst(eng, holder, missing)
    self_seq = eng.int('self_seq', 1, 2 ** 64 - 1)
    la = eng.int('local.a', 1, 2 ** 64 - 1)
    stub = inst.ndn_app
    nvec = case['vectors']
    vecs = []
    for j in range(nvec):
        v = {}
        lo, hi = RANGES[case.get('range', 'full')]
        if eng.choice(2, 'v%d.self?' % j):
            v[ids[0]] = eng.int('v%d.self' % j, lo, hi)
        v[ids[1]] = eng.int('v%d.a' % j, lo, hi)
        vecs.append(v)
    # the first vector is outdated in A (so that this node must answer => suppression) and not "too new"
    eng.assume(vecs[0][ids[1]] < la)
    for v in vecs:
        if ids[0] in v:
            eng.assume(v[ids[0]] <= self_seq)

    def deliver(v):
        comp = make_vector_component(list(v.items()))
        name = Name.from_str('/grp') + [comp, Component.from_bytes(bytes(32), 2)]
        inst.sync_handler(name, None, None, {})

    async def main(loop):
        holder['loop'] = loop
        inst.self_seq = self_seq
        inst.start(stub)
        inst.local_sv[ids[1]] = la
        await vloop.sleep_until(loop, loop.at_ms(1000))
        n0 = len(stub.sent)
        for j, v in enumerate(vecs):
            try:
                deliver(v)
            except Exception as e:
                eng.fail('handler-returns-normally', exc_sig(e))
            if j == 0:
                holder['state_after_first'] = inst.state
            await vloop.sleep_until(loop, loop.at_ms(1000 + 10 * (j + 1)))
        await vloop.sleep_until(loop, loop.at_ms(1400))
        n1 = len(stub.sent)
        inst.stop()
        await asyncio.sleep(0)
        await asyncio.sleep(0)
        return n0, n1
    loop, r, err = appenv.run(eng, main)
    if err or r is None:
        eng.fail('timer-fires', 'deadlock')
        return
    n0, n1 = r
    eng.check(holder.get('state_after_first') == SvsState.SyncSuppression, 'outdated-remote-starts-suppression')
    # merge of the vectors heard during the period
    heard = {}
    for v in vecs:
        for k, x in v.items():
            heard[k] = x if k not in heard else Ite(x > heard[k], x, heard[k])
    # local after merging (monotone)
    final_local = {ids[0]: self_seq, ids[1]: la}
    for v in vecs:
        x = v[ids[1]]
        final_local[ids[1]] = Ite(x > final_local[ids[1]], x, final_local[ids[1]])
    newer = False
    for k, lv in final_local.items():
        h = heard.get(k)
        newer = Or(newer, lv > (h if h is not None else 0))
    sent = n1 - n0
    eng.check(Iff(sent >= 1, newer), 'announce-iff-newer', {'sent': sent}, sig='period:sent-%d' % sent)
    if loop.errors:
        exc = loop.errors[0].get('exception')
        eng.fail('no-unhandled-error-in-loop', exc_sig(exc) if exc is not None else '?')
    eng.observe('sent', sent)
    eng.reach('end')


HARNESSES = {'step': h_step, 'timer': h_timer, 'publish': h_publish, 'period': h_period}


def cases(tier, seed):
    cs = []
    # (entry ORDER inside the received vector matters to a loop that merges as it goes: own entry first / last / middle)
    subsets = [[], [0], [1], [1, 2], [0, 1], [1, 0], [3], [0, 1, 2], [1, 0, 2], [1, 3]]
    for state in ('steady', 'suppression'):
        for rs in subsets:
            for lp in ([1, 1], [1, 0], [0, 0]):
                for ap in ([1, 1, 1], [0, 1, 0], [0, 0, 0]):
                    if state == 'steady' and ap == [0, 1, 0]:
                        continue
                    # the width of each encoded number forks 4 ways: full range for single entries, one width class
                    # (1 byte / 8 bytes) per case for larger vectors
                    for rg in (('full',) if len(rs) <= 1 else ('b', 'q')):
                        cs.append(('step', {'state': state, 'recv_ids': rs, 'local_present': lp, 'agg_present': ap,
                                            'range': rg}, {'weight': 1 + 4 ** len(rs)}))
        for mal in ('empty-id', 'no-seq', 'short-name', 'garbage'):
            cs.append(('step', {'state': state, 'recv_ids': [1], 'local_present': [1, 0], 'agg_present': [0, 1, 0],
                                'malformed': mal}))
    for lp in ([1, 1], [1, 0], [0, 0]):
        for ap in ([1, 1, 1], [1, 1, 0], [0, 1, 0], [0, 0, 0], [1, 0, 0]):
            cs.append(('timer', {'local_present': lp, 'agg_present': ap}, {'weight': 5}))
    for pres in ([0, 0], [1, 0], [1, 1]):
        for k in (1, 2):
            cs.append(('publish', {'present': pres, 'publications': k}, {'weight': 5}))
            if pres[0] and k == 1:
                cs.append(('publish', {'present': pres, 'publications': 1, 'from_callback': True}, {'weight': 15}))
            if pres[0] and (k == 1 or pres == [1, 0] or tier != 'quick'):
                cs.append(('publish', {'present': pres, 'publications': k, 'suppressed': True}, {'weight': 15}))
    for n in (1, 2, 3) if tier != 'quick' else (1, 2):
        for rg in ('b', 'q'):
            cs.append(('period', {'vectors': n, 'range': rg}, {'weight': 30 * n, 'split_depth': 4}))
    return cs
