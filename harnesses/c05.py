# C05 -- nothing that requires validation reaches the application unvalidated.
# Real code executed symbolically: appv2 PendingIntEntry.satisfy, _on_data, _wait_for_data, _on_interest
# (sig_required, params_sha256_checker, submit_interest, reply closure); legacy app._wait_for_data, _on_interest;
# security.validator.digest_validator.params_sha256_checker / sha256_digest_checker; types.ValidResult;
# parse_interest / parse_data on the delivered packets.
import asyncio
from symex import vloop, crypto
from symex.api import And, Or, Not, Implies, Iff, blist, bwrap, beq, exc_sig, as_int
from . import env, appenv, ref

PROPERTY = 'C05'
INFO = {
    'explanation': 'C05: consumer side - one Interest, one matching Data at a symbolic instant, validator behaviour by '
                   'choice (every ValidResult / truthiness value, raising TimeoutError or CancelledError) with symbolic '
                   'latency against a symbolic lifetime.  Producer side - incoming Interests (plain, with '
                   'ApplicationParameters, signed) whose digest component is intact or differs in one symbolic byte by '
                   'a symbolic value, with validator attached / missing / each verdict; handler and validator invocations '
                   'are logged and compared with the decision table of the statement.',
    'bounds': {'quick': {'lifetime_ms': '[1,10000]', 'arrival_ms': '[0,20000]', 'validator_latency_ms': '[0,20000]',
                         'digest_corruption': 'one byte at a symbolic position 0..31, any different value',
                         'application_parameters': '0..2 symbolic bytes'}},
    'outside': ['validators with side effects on the application object'],
    'assumptions': ['ideal hash model for the parameters digest', 'virtual-time event loop'],
}
MANDATORY = {'cons_v2': ['consumer-decision-table'], 'prod_v2': ['producer-decision-table'],
             'cons_v1': ['consumer-decision-table'], 'prod_v1': ['producer-decision-table'],
             'prod_swap': ['producer-decision-table', 'end'], 'prod_nested': ['producer-decision-table', 'end']}


def _consumer(eng, case, front):
    import ndn.types as types
    import ndn.encoding as enc
    app, face = appenv.make_app(front)
    life = eng.int('life', 1, 10000)
    tD = eng.int('tD', 0, 20000)
    dV = eng.int('dV', 0, 20000)
    dA = None
    if case.get('defer'):
        # the result is fetched dA ms after express(), still inside the lifetime (later fetches get the documented
        # 100 ms grace: outside the claim)
        dA = eng.int('dA', 0, 20000)
        eng.assume(dA < life)
    data = bytes(enc.make_data('/a', enc.MetaInfo(), b'payload'))
    iname = '/a'
    if case.get('full_name'):
        # the Interest names the packet by its full name (implicit digest): the caller's validator decides all the same
        import hashlib
        iname = enc.Name.from_str('/a') + [enc.Component.from_bytes(hashlib.sha256(data).digest(),
                                                                    enc.Component.TYPE_IMPLICIT_SHA256)]
    VR = list(types.ValidResult)
    log = []
    out = {}
    if front == 'v2':
        behaviours = [('ret', v) for v in VR] + [('raise', TimeoutError), ('raise', asyncio.CancelledError)]
    else:
        behaviours = [('ret', v) for v in (True, False, None, 0, 1, 'x', '')]

    async def validator(name, sig, ctx=None):
        b = behaviours[eng.choice(len(behaviours), 'behaviour')]
        log.append(b)
        await asyncio.sleep(dV / 1000.0)
        if b[0] == 'raise':
            raise b[1]()
        return b[1]

    async def v1_validator(name, sig):
        return await validator(name, sig)

    async def consumer():
        try:
            if front == 'v2':
                # express() sends at once and returns the coroutine that fetches the result: it may be awaited later
                coro = app.express(iname, validator, lifetime=life, nonce=7)
                if dA is not None:
                    await vloop.sleep_until(asyncio.get_running_loop(), asyncio.get_running_loop().at_ms(dA))
                n, content, ctx = await coro
            else:
                n, meta, content = await app.express_interest(iname, validator=v1_validator, lifetime=life, nonce=7)
            out['r'] = ('data', bytes(content), enc.Name.to_str(n))
        except types.InterestTimeout:
            out['r'] = ('timeout',)
        except types.ValidationFailure as e:
            out['r'] = ('vfail', getattr(e, 'result', None), bytes(e.content) if e.content is not None else None,
                        enc.Name.to_str(e.name))
        except types.InterestNack as e:
            out['r'] = ('nack',)
        except types.InterestCanceled:
            out['r'] = ('canceled',)
        except Exception as e:
            out['r'] = ('error', exc_sig(e))

    async def main(loop):
        t = asyncio.ensure_future(consumer())
        await asyncio.sleep(0)
        await vloop.sleep_until(loop, loop.at_ms(tD))
        try:
            await app._receive(6, data)
        except Exception as e:
            eng.fail('receive-returns-normally', exc_sig(e))
        await t
        await vloop.sleep_until(loop, loop.at_ms(tD + dV + life + 1))

    loop, res, err = appenv.run(eng, main)
    if err == 'deadlock':
        eng.fail('consumer-finishes', 'deadlock')
        return
    got = out.get('r')
    if got is None:
        eng.fail('consumer-finishes', 'no-outcome')
        return
    if got[0] == 'error':
        eng.fail('no-internal-error', got[1])
        return
    # decision table of the statement
    adm = []
    arrived_in_time = tD < life
    if bool(tD > life):
        adm.append(('timeout',))
    else:
        if bool(tD == life):
            adm.append(('timeout',))
        if not log:
            adm.append(('validator-not-consulted',))
        else:
            b = log[0]
            if b[0] == 'raise':
                verdict = types.ValidResult.TIMEOUT
                ok_v = False
            elif front == 'v2':
                verdict = b[1]
                ok_v = verdict in (types.ValidResult.PASS, types.ValidResult.ALLOW_BYPASS)
            else:
                verdict = None
                ok_v = bool(b[1])
            fin = tD + dV
            res_in_time = ('data', b'payload', '/a') if ok_v else ('vfail', verdict, b'payload', '/a')
            if bool(fin < life):
                adm.append(res_in_time)
            elif bool(fin == life):
                adm.append(res_in_time)
                adm.append(('timeout',))
            else:
                adm.append(('timeout',))
    sig = '%s-instead-of-%s' % (got[0], '|'.join(sorted(set(a[0] for a in adm))))
    if front == 'v1' and got[0] == 'vfail':
        got = (got[0], None) + got[2:]         # the legacy failure carries no verdict (a bool validator)
    eng.check(got in adm, 'consumer-decision-table', {'got': repr(got), 'admissible': repr(adm)}, sig=sig)
    if loop.errors:
        exc = loop.errors[0].get('exception')
        eng.fail('no-unhandled-error-in-loop', exc_sig(exc) if exc is not None else str(loop.errors[0].get('message')))
    eng.observe('outcome', got[0])
    eng.reach('end')


def h_cons2(eng, case):
    """several Interests for the same Data, each with its own validator: every caller gets the outcome decided by the
    validator supplied for ITS Interest, and every validator is consulted"""
    import ndn.types as types
    import ndn.encoding as enc
    front = case['front']
    app, face = appenv.make_app(front)
    n = case['consumers']
    VR = list(types.ValidResult)
    verdicts = VR if front == 'v2' else [True, False]
    chosen = {}
    out = {}
    names = ['/a'] * n                                    # (the third one, if any, asks with CanBePrefix)

    def mk_validator(i):
        if front == 'v2':
            async def v(name, sig, ctx):
                chosen[i] = verdicts[eng.choice(len(verdicts), 'verdict%d' % i)]
                return chosen[i]
        else:
            async def v(name, sig):
                chosen[i] = verdicts[eng.choice(len(verdicts), 'verdict%d' % i)]
                return chosen[i]
        return v

    async def consumer(i):
        try:
            if front == 'v2':
                nm, content, ctx = await app.express(names[i], mk_validator(i), lifetime=4000, nonce=7 + i,
                                                     can_be_prefix=(i >= 2))
            else:
                nm, meta, content = await app.express_interest(names[i], validator=mk_validator(i), lifetime=4000,
                                                               nonce=7 + i, can_be_prefix=(i >= 2))
            out[i] = ('data', bytes(content))
        except types.ValidationFailure as e:
            out[i] = ('vfail', getattr(e, 'result', None))
        except Exception as e:
            out[i] = (type(e).__name__,)
    data = bytes(enc.make_data('/a', enc.MetaInfo(), b'payload'))

    async def main(loop):
        ts = [asyncio.ensure_future(consumer(i)) for i in range(n)]
        await asyncio.sleep(0)
        await vloop.sleep_until(loop, loop.at_ms(10))
        await app._receive(6, data)
        for t in ts:
            await t
    loop, r, err = appenv.run(eng, main)
    if err == 'deadlock':
        eng.fail('consumer-finishes', 'deadlock')
        return
    for i in range(n):
        eng.check(i in chosen, 'own-validator-consulted', {'consumer': i, 'outcome': repr(out.get(i))},
                  sig='validator-of-another-interest-decided')
        if i not in chosen:
            continue
        v = chosen[i]
        if front == 'v2':
            exp = ('data', b'payload') if v in (types.ValidResult.PASS, types.ValidResult.ALLOW_BYPASS) else ('vfail', v)
        else:
            exp = ('data', b'payload') if v else ('vfail', None)
        got = out.get(i)
        if front == 'v1' and got is not None and got[0] == 'vfail':
            got = ('vfail', None)
        eng.check(got == exp, 'consumer-decision-table', {'consumer': i, 'got': repr(got), 'expected': repr(exp)},
                  sig='%s-instead-of-%s:several-consumers' % (got[0] if got else None, exp[0]))
    if loop.errors:
        exc = loop.errors[0].get('exception')
        eng.fail('no-unhandled-error-in-loop', exc_sig(exc) if exc is not None else str(loop.errors[0].get('message')))
    eng.reach('end')


def h_cons_v2(eng, case):
    _consumer(eng, case, 'v2')


def h_cons_v1(eng, case):
    _consumer(eng, case, 'v1')


# ---------------------------------------------------------------------------------------------
def _producer(eng, case, front):
    import ndn.types as types
    import ndn.encoding as enc
    env.symbolic_env(eng)
    app, face = appenv.make_app(front)
    variant = case['variant']               # plain | params | signed
    attach_validator = case['validator']    # True / False
    VR = list(types.ValidResult)
    log = {'validator': 0, 'handler': 0, 'handler_args': None}
    if front == 'v2':
        verdicts = VR
    else:
        verdicts = [True, False, None, 0, 1]
    chosen = {}

    warming = [False]

    async def v2_validator(name, sig, ctx):
        if warming[0]:
            return types.ValidResult.PASS
        log['validator'] += 1
        if case.get('raising'):
            # a validator that gives up instead of answering (its own timeout, a cancelled fetch): no verdict at all
            k = eng.choice(len(verdicts) + 2, 'verdict')
            if k >= len(verdicts):
                chosen['v'] = 'raised'
                raise [TimeoutError, asyncio.CancelledError][k - len(verdicts)]()
            chosen['v'] = verdicts[k]
            return chosen['v']
        chosen['v'] = verdicts[eng.choice(len(verdicts), 'verdict')]
        return chosen['v']

    async def v1_validator(name, sig):
        if warming[0]:
            return True
        log['validator'] += 1
        chosen['v'] = verdicts[eng.choice(len(verdicts), 'verdict')]
        return chosen['v']

    if front == 'v2':
        def handler(name, app_param, reply, context):
            log['handler'] += 1
            log['handler_args'] = (name, app_param)
        app.attach_handler('/p', handler, v2_validator if attach_validator else None)
    else:
        def handler(name, param, app_param):
            log['handler'] += 1
            log['handler_args'] = (name, app_param)
        app.set_interest_filter('/p', handler, v1_validator if attach_validator else None)
        if case.get('default_validator') == 'reject':
            async def rej(name, sig):
                log['validator'] += 1
                chosen['v'] = False
                return False
            app.int_validator = rej
    # the incoming Interest, built by the real encoder
    signer = None
    app_param = None
    if variant in ('params', 'signed'):
        app_param = eng.bytes('app', case.get('app_len', 1))
    if variant == 'signed':
        signer = env.make_signer(eng, 'hmac', for_interest=True)
    wire = enc.make_interest('/p/x', enc.InterestParam(nonce=5, lifetime=eng.int('lifetime', 0, 2 ** 32)), app_param, signer)
    w = list(blist(wire))
    digest_ok = True
    if variant != 'plain':
        rv = ref.parse_interest(w)
        # locate the digest component (type 2, 32 bytes) inside the name
        nm = [t for p, t in ref.strict_tree(w, 0, len(w), [('interest', 5, 'model', (ref.INTEREST, False))])[1]
              if p == 'interest.name'][0]
        off = nm.vs
        dpos = None
        for c in rv['name']:
            if len(c) == 34 and c[0] == 2:
                dpos = off + 2
            off += len(c)
        mode = eng.choice(2, 'corrupt')
        if mode == 1:
            k = eng.choice(32, 'corrupt_pos') if case.get('all_positions') else [0, 15, 31][eng.choice(3, 'corrupt_pos')]
            # any different value, expressed relative to the (possibly ideal-function) digest byte
            delta = eng.int('corrupt_delta', 1, 255)
            w[dpos + k] = (w[dpos + k] + delta) % 256
            digest_ok = False
    pkt = bwrap(w)

    warm_pkt = None
    if case.get('warm'):
        # the same name was asked for before by a properly signed Interest that passed validation: no verdict, digest
        # check or handler decision of that exchange may be reused for the next Interest
        ws = env.make_signer(eng, 'hmac', for_interest=True) if signer is None else signer
        warm_pkt = bytes(enc.make_interest('/p/x', enc.InterestParam(nonce=4, lifetime=4000), b'warm', ws))

    async def main(loop):
        if warm_pkt is not None:
            warming[0] = True
            await app._receive(5, warm_pkt)
            for _ in range(5):
                await asyncio.sleep(0)
            warming[0] = False
            log.update(validator=0, handler=0, handler_args=None)
        try:
            await app._receive(5, pkt)
        except Exception as e:
            eng.fail('receive-returns-normally', exc_sig(e), repr(e)[:150])
        for _ in range(5):
            await asyncio.sleep(0)

    loop, res, err = appenv.run(eng, main)
    # decision table
    sig_required = variant != 'plain'
    if front == 'v2':
        if not sig_required:
            exp_handler = True
            exp_validator_max = 0
        elif not digest_ok:
            exp_handler = False
            exp_validator_max = 0
        elif not attach_validator:
            exp_handler = False
            exp_validator_max = 0
        else:
            if 'v' not in chosen:
                exp_handler = False       # validator was never consulted although required: handler must not run
            else:
                exp_handler = chosen['v'] in (types.ValidResult.PASS, types.ValidResult.ALLOW_BYPASS)
            exp_validator_max = 1
    else:
        signed = variant == 'signed'
        if not sig_required:
            exp_handler = True
            exp_validator_max = 0
        elif not digest_ok:
            exp_handler = False
            exp_validator_max = 0
        elif not signed:
            exp_handler = True
            exp_validator_max = 0
        elif not attach_validator and case.get('default_validator') != 'reject':
            # validator in force = the application default, sha256_digest_checker, which accepts every
            # signature type other than DigestSha256 (the Interest here is HMAC-signed)
            exp_handler = True
            exp_validator_max = 0
        else:
            exp_handler = bool(chosen.get('v', False))
            exp_validator_max = 1
    sigs = 'handler=%d expected=%s validator=%d' % (log['handler'], exp_handler, log['validator'])
    eng.check(log['handler'] == (1 if exp_handler else 0), 'producer-decision-table',
              {'variant': variant, 'digest_ok': digest_ok, 'validator_attached': attach_validator,
               'verdict': repr(chosen.get('v')), 'handler': log['handler'], 'validator': log['validator']},
              sig='handler-%s-but-expected-%s:%s%s' % (log['handler'], int(exp_handler), variant,
                                                      '' if digest_ok else ':bad-digest'))
    eng.check(log['validator'] <= exp_validator_max, 'validator-consulted-only-when-required',
              {'variant': variant, 'validator': log['validator']})
    if sig_required and digest_ok and exp_validator_max == 1 and log['handler']:
        eng.check(log['validator'] == 1, 'handler-only-after-validation')
    if log['handler'] and log['handler_args'] is not None:
        eng.check(beq(log['handler_args'][1], app_param), 'handler-gets-the-parameters')
    if loop is not None and loop.errors and chosen.get('v') != 'raised':
        exc = loop.errors[0].get('exception')
        eng.fail('no-unhandled-error-in-loop', exc_sig(exc) if exc is not None else str(loop.errors[0].get('message')))
    eng.observe('handler', log['handler'])
    eng.observe('validator', log['validator'])
    eng.reach('end')


def h_prod_v2(eng, case):
    _producer(eng, case, 'v2')


def h_prod_v1(eng, case):
    _producer(eng, case, 'v1')


def h_prod_swap(eng, case):
    """the handler table changes while an Interest's validator is still running (the longest prefix is detached, or
    detached and re-attached with another handler and validator; a shorter prefix stays attached with its own validator or
    none): whichever handler ends up with the Interest, ITS validator must have been consulted for it and accepted"""
    import ndn.types as types
    import ndn.encoding as enc
    env.symbolic_env(eng)
    app, face = appenv.make_app('v2')
    VR = [types.ValidResult.PASS, types.ValidResult.FAIL, types.ValidResult.ALLOW_BYPASS, types.ValidResult.SILENCE]
    consulted = {}
    verdict = {}
    calls = []

    def mk_validator(tag, slow):
        async def validator(name, sig, ctx):
            consulted[tag] = consulted.get(tag, 0) + 1
            v = VR[eng.choice(len(VR), 'verdict-' + tag)]
            if slow:
                await asyncio.sleep(0.010)
            verdict[tag] = v
            return v
        return validator

    def mk_handler(tag):
        def handler(name, app_param, reply, context):
            calls.append(tag)
        return handler
    outer_has_validator = eng.choice(2, 'outer-validator?')
    app.attach_handler('/p', mk_handler('outer'), mk_validator('outer', False) if outer_has_validator else None)
    app.attach_handler('/p/x', mk_handler('inner'), mk_validator('inner', True))
    variant = case['variant']
    signer = env.make_signer(eng, 'hmac', for_interest=True) if variant == 'signed' else None
    wire = bytes(enc.make_interest('/p/x/y', enc.InterestParam(nonce=5, lifetime=4000), b'a', signer))
    op = ['none', 'detach', 'replace'][eng.choice(3, 'table-op')]

    async def main(loop):
        await app._receive(5, wire)
        await asyncio.sleep(0.002)                  # the inner validator is suspended now
        if op in ('detach', 'replace'):
            app.detach_handler('/p/x')
        if op == 'replace':
            app.attach_handler('/p/x', mk_handler('new'), mk_validator('new', False))
        await asyncio.sleep(0.050)
    loop, r, err = appenv.run(eng, main)
    if err == 'deadlock':
        eng.fail('producer-decision-table', 'deadlock')
        return
    if loop.errors:
        exc = loop.errors[0].get('exception')
        eng.fail('no-unhandled-error-in-loop', exc_sig(exc) if exc is not None else str(loop.errors[0].get('message')))
        return
    eng.check(len(calls) <= 1, 'producer-decision-table', {'calls': calls}, sig='delivered-more-than-once')
    for tag in calls:
        ok = consulted.get(tag, 0) >= 1 and verdict.get(tag) in (types.ValidResult.PASS, types.ValidResult.ALLOW_BYPASS)
        eng.check(ok, 'producer-decision-table',
                  {'handler': tag, 'its_validator_consulted': consulted.get(tag, 0), 'its_verdict': repr(verdict.get(tag)),
                   'table_op': op}, sig='handler-reached-without-its-validator-accepting:' + tag)
    if not calls:
        eng.check(True, 'producer-decision-table')
    eng.observe('calls', list(calls))
    eng.reach('end')


def h_prod_nested(eng, case):
    """nested prefixes: the outer handler has an accepting validator, the inner one has NONE - an Interest with
    parameters / a signature under the inner prefix is judged by the validator in force for ITS handler (none = rejected),
    not by a neighbour's; plain Interests are delivered"""
    import ndn.types as types
    import ndn.encoding as enc
    env.symbolic_env(eng)
    app, face = appenv.make_app('v2')
    calls = []
    consulted = []

    async def accept(name, sig, ctx):
        consulted.append('outer')
        return [types.ValidResult.PASS, types.ValidResult.ALLOW_BYPASS][eng.choice(2, 'verdict')]

    def mk_handler(tag):
        def handler(name, app_param, reply, context):
            calls.append(tag)
        return handler
    inner_first = eng.choice(2, 'attach-order')
    ops = [('/p', 'outer', accept), ('/p/x', 'inner', None)]
    for pre, tag, val in (reversed(ops) if inner_first else ops):
        app.attach_handler(pre, mk_handler(tag), val)
    variant = ['plain', 'params', 'signed'][eng.choice(3, 'variant')]
    signer = env.make_signer(eng, 'hmac', for_interest=True) if variant == 'signed' else None
    ap = None if variant == 'plain' else b'a'
    wire = bytes(enc.make_interest('/p/x/y', enc.InterestParam(nonce=5, lifetime=4000), ap, signer))

    async def main(loop):
        await app._receive(5, wire)
        for _ in range(6):
            await asyncio.sleep(0)
    loop, r, err = appenv.run(eng, main)
    if loop.errors:
        exc = loop.errors[0].get('exception')
        eng.fail('no-unhandled-error-in-loop', exc_sig(exc) if exc is not None else str(loop.errors[0].get('message')))
        return
    if variant == 'plain':
        eng.check(calls == ['inner'] and not consulted, 'producer-decision-table', {'calls': calls, 'consulted': consulted},
                  sig='plain-interest')
    else:
        eng.check(not calls, 'producer-decision-table', {'calls': list(calls), 'validators_consulted': list(consulted)},
                  sig='delivered-to-a-handler-without-validator')
    eng.observe('calls', list(calls))
    eng.reach('end')


HARNESSES = {'prod_nested': h_prod_nested, 'prod_swap': h_prod_swap, 'cons2': h_cons2, 'cons_v2': h_cons_v2, 'cons_v1': h_cons_v1, 'prod_v2': h_prod_v2, 'prod_v1': h_prod_v1}


def cases(tier, seed):
    cs = [('cons_v2', {}, {'weight': 20}), ('cons_v1', {}, {'weight': 20}), ('cons_v2', {'defer': True}, {'weight': 40}),
          ('cons_v2', {'full_name': True}, {'weight': 20}), ('cons_v1', {'full_name': True}, {'weight': 20})]
    quick = tier == 'quick'
    for front in ('v2', 'v1'):
        for n in (2, 3):
            cs.append(('cons2', {'front': front, 'consumers': n}, {'weight': 10}))
    for variant in ('params', 'signed'):
        cs.append(('prod_swap', {'variant': variant}, {'weight': 5}))
    cs.append(('prod_nested', {}, {'weight': 5}))
    for front in ('prod_v2', 'prod_v1'):
        for variant in ('plain', 'params', 'signed'):
            for val in (True, False):
                for n in ((0, 1) if quick else (0, 1, 2)):
                    if variant == 'plain' and n:
                        continue
                    c = {'variant': variant, 'validator': val, 'app_len': n, 'all_positions': not quick}
                    cs.append((front, c))
                    if n <= 1:
                        cs.append((front, dict(c, warm=True)))
                    if front == 'prod_v2' and val and variant != 'plain' and n <= 1:
                        cs.append((front, dict(c, raising=True)))
                    if front == 'prod_v1' and not val and variant == 'signed':
                        cs.append((front, dict(c, default_validator='reject')))
    return cs
