# C20 -- client configuration resolves with environment over file over platform default.
# Real code executed: client_conf.read_client_conf (get_path, resolve_location), default_face, default_keychain,
# platform.linux.Linux path methods.  The environment, the file system and the store constructors are stubs whose
# "exists" / "is set" answers are solver Booleans; strings are concrete (configparser / urlparse run natively).
import posixpath
from symex.api import And, Or, Not, Implies, Iff, exc_sig
from symex.core import SBool
from . import env

PROPERTY = 'C20'
INFO = {
    'explanation': 'C20: presence of each NDN_CLIENT_* variable, existence of each candidate configuration file, '
                   'presence of each key in the file and existence of every referenced location are solver Booleans; the '
                   'returned dictionary, the face object and the keychain arguments are compared with the decision table of '
                   'the statement.  Honest note: strings are concrete; the solver\'s role is the pruned exhaustive '
                   'exploration of the presence / existence vector.',
    'bounds': {'thorough': {'values': 'wider value menus for file and environment (5 transports, 6 store locations each incl. parent-relative and second absolute ones)'}, 'quick': {'uri_schemes': '13 hand-written URIs + the grid of 10 scheme stems x 16 suffixes', 'configuration_files': '4 candidate paths, each present or not', 'environment': '3 variables, each '
                         'set or not', 'values': 'chosen from small concrete sets (absolute / relative / bare scheme store '
                         'locations; unix tcp tcp4 tcp6 udp udp4 udp6 and unknown schemes, with and without port)'}},
    'outside': ['configuration texts outside the chosen value sets', 'non-Linux platforms'],
    'assumptions': ['os.environ / os.path.exists / open / store constructors are stubs; HOME is /home/u'],
}
MANDATORY = {'conf': ['precedence'], 'face': ['face-of-uri']}

HOME = '/home/u'
LINK_DIR = '/dotfiles/store'
CAND = [HOME + '/.ndn/client.conf', '/usr/local/etc/ndn/client.conf', '/opt/local/etc/ndn/client.conf',
        '/etc/ndn/client.conf']
FILE_VALUES = {
    'transport': [None, 'tcp://10.0.0.1:7000', 'unix:///tmp/f.sock'],
    'pib': [None, 'pib-sqlite3:/abs/pib', 'pib-sqlite3:rel/pib', 'pib-sqlite3'],
    'tpm': [None, 'tpm-file:/abs/tpm', 'tpm-file:rel/tpm', 'tpm-file', 'tpm-file:'],     # 'scheme:' = empty location
}
ENV_VALUES = {
    'transport': [None, 'udp4://h.example:1', 'bogus://x'],
    'pib': [None, 'pib-sqlite3:/env/pib', 'pib-sqlite3:'],
    'tpm': [None, 'tpm-file:env/tpm'],
}


class FS:
    """existence of every path is decided lazily: a fresh solver Boolean per distinct path"""
    def __init__(self, eng, fixed=None, links=False):
        self.eng = eng
        self.known = dict(fixed or {})
        self.asked = []
        self.links = {} if links else None

    def realpath(self, p):
        """the candidate configuration files may be symbolic links into another directory (one solver Boolean each)"""
        p = posixpath.normpath(p)
        if self.links is not None and p in CAND:
            if p not in self.links:
                self.links[p] = bool(self.eng.bool('symlink:' + p))
            if self.links[p]:
                return LINK_DIR + '/' + str(CAND.index(p)) + '/client.conf'
        return p

    def exists(self, p):
        if p.startswith(LINK_DIR + '/') and p.endswith('/client.conf'):
            p = CAND[int(p[len(LINK_DIR) + 1:].split('/')[0])]      # the link target exists iff the link does
        if p not in self.known:
            self.known[p] = self.eng.bool('exists:' + p)
        self.asked.append(p)
        return bool(self.known[p])


def install(eng, fs, environ, files):
    import ndn.client_conf as cc
    import ndn.platform.linux as lx
    from ndn.platform.general import Platform

    class _PathMeta(type):
        def __getattr__(cls, k):          # every pure path-string function of os.path is the real one
            return getattr(posixpath, k)

    class P(metaclass=_PathMeta):
        exists = staticmethod(fs.exists)
        isfile = staticmethod(fs.exists)
        isdir = staticmethod(fs.exists)
        expandvars = staticmethod(lambda p: p)
        realpath = staticmethod(fs.realpath)
        islink = staticmethod(lambda p: fs.realpath(p) != posixpath.normpath(p))
        expanduser = staticmethod(lambda p: p.replace('~', HOME, 1))
        abspath = staticmethod(lambda p: p if p.startswith('/') else posixpath.join('/cwd', p))

    class OS:
        path = P
    OS.environ = environ
    cc.os = OS
    lx.os = OS

    def fake_open(path, *a, **k):
        import io
        if path.startswith(LINK_DIR + '/') and path.endswith('/client.conf'):
            path = CAND[int(path[len(LINK_DIR) + 1:].split('/')[0])]
        if path not in files:
            raise FileNotFoundError(path)
        return io.StringIO(files[path])
    cc.open = fake_open
    Platform._instance = None
    log = []

    class TpmFile:
        def __init__(self, path):
            log.append(('tpm-file', path))

    class Keychain:
        def __init__(self, path, tpm):
            log.append(('pib-sqlite3', path))
    cc.TpmFile = TpmFile
    cc.KeychainSqlite3 = Keychain
    return log


WIDE_FILE_VALUES = {
    'transport': FILE_VALUES['transport'] + ['udp://h.example:1', 'tcp6://[::1]:9'],
    'pib': FILE_VALUES['pib'] + ['pib-sqlite3:../up/pib', 'pib-sqlite3:/abs/other/pib', 'pib-sqlite3:'],
    'tpm': FILE_VALUES['tpm'] + ['tpm-file:../up/tpm', 'tpm-file:/abs/other/tpm'],
}
WIDE_ENV_VALUES = {
    'transport': ENV_VALUES['transport'] + ['unix:///e.sock'],
    'pib': ENV_VALUES['pib'] + ['pib-sqlite3:envrel/pib', 'pib-sqlite3'],
    'tpm': ENV_VALUES['tpm'] + ['tpm-file:/env/abs/tpm', 'tpm-file', 'tpm-file:'],
}


def h_conf(eng, case):
    import ndn.client_conf as cc
    if case.get('schemes'):
        # store schemes other than the platform's default ones: the location rules do not depend on the scheme
        FILE_VALUES = {'transport': [None], 'pib': ['pib-memory', 'pib-memory:/gone/p', 'pib-sqlite3:/gone/p', None],
                       'tpm': ['tpm-memory', 'tpm-osxkeychain:', 'tpm-file:rel/t']}
        ENV_VALUES = {'transport': [None], 'pib': [None], 'tpm': [None, 'tpm-cng']}
    elif case.get('odd'):
        # values with characters that mean something to configuration-file parsers (blank + ';' / '#', '=', '%', ':')
        FILE_VALUES = {'transport': [None, 'unix:///srv/run ;1/nfd.sock', 'unix:///srv/a=b/%41.sock'],
                       'pib': [None, 'pib-sqlite3:/data/keys #1', 'pib-sqlite3:/data/k;2'],
                       'tpm': ['tpm-file:/x/tpm ;old', 'tpm-file:/x/t#3', None]}
        ENV_VALUES = {'transport': [None], 'pib': [None], 'tpm': [None, 'tpm-file:/env/t #4']}
    elif case.get('links'):
        # candidate files that are symbolic links: small value menus (relative store locations are what matters)
        FILE_VALUES = {'transport': [None], 'pib': [None, 'pib-sqlite3:rel/pib', 'pib-sqlite3:/abs/pib'],
                       'tpm': ['tpm-file:rel/tpm', 'tpm-file']}
        ENV_VALUES = {'transport': [None], 'pib': [None, 'pib-sqlite3:envrel/pib'], 'tpm': [None]}
    else:
        FILE_VALUES, ENV_VALUES = _menus(case)
    return _conf(eng, case, cc, FILE_VALUES, ENV_VALUES)


def _menus(case):
    return (WIDE_FILE_VALUES, WIDE_ENV_VALUES) if case.get('wide') else \
        (globals()['FILE_VALUES'], globals()['ENV_VALUES'])


def _conf(eng, case, cc, FILE_VALUES, ENV_VALUES):
    if case.get('warm'):
        # an earlier read in the same process saw other file contents at the same paths: nothing of it may survive
        wtext = 'transport=tcp://9.9.9.9:9\npib=pib-sqlite3:/warm/pib\ntpm=tpm-file:/warm/tpm\n'
        wfs = FS(eng, {p: True for p in CAND + ['/warm/pib', '/warm/tpm']})
        wfs.known.update({'/run/nfd/nfd.sock': True})
        install(eng, wfs, {}, {p: wtext for p in CAND})
        try:
            cc.read_client_conf()
        except Exception as e:
            eng.fail('read-no-error', exc_sig(e), repr(e)[:120])
            return
    fs = FS(eng, links=bool(case.get('links')))
    # which file exists first: decided through fs.exists by the code itself; contents by choice
    sel = {k: eng.choice(len(v), 'file.' + k) for k, v in FILE_VALUES.items()}
    lines = ['; comment line', '']
    for k in ('transport', 'pib', 'tpm'):
        v = FILE_VALUES[k][sel[k]]
        if v is not None:
            lines.append('%s=%s' % (k, v))
    text = '\n'.join(lines) + '\n'
    files = {p: text for p in CAND}
    environ = {}
    esel = {k: (0 if case.get('warm') else eng.choice(len(v), 'env.' + k)) for k, v in ENV_VALUES.items()}
    for k, v in ENV_VALUES.items():
        if v[esel[k]] is not None:
            environ['NDN_CLIENT_' + k.upper()] = v[esel[k]]
    log = install(eng, fs, environ, files)
    try:
        got = cc.read_client_conf()
    except Exception as e:
        eng.fail('read-no-error', exc_sig(e), repr(e)[:120])
        return
    # ---- decision table: the oracle consults the (symbolic) world itself - also for paths the code never looked at
    def ex(p):
        return fs.exists(p)
    path = ''
    for p in CAND:
        if ex(p):
            path = p
            break
    default_transport = 'unix:///run/nfd/nfd.sock'
    if not ex('/run/nfd/nfd.sock') and ex('/run/nfd.sock'):
        default_transport = 'unix:///run/nfd.sock'
    exp = {'transport': default_transport, 'pib': 'pib-sqlite3', 'tpm': 'tpm-file'}
    if path:
        for k in exp:
            v = FILE_VALUES[k][sel[k]]
            if v is not None:
                exp[k] = v
    for k in exp:
        v = ENV_VALUES[k][esel[k]]
        if v is not None:
            exp[k] = v
    eng.check(got['transport'] == exp['transport'], 'precedence', {'got': got['transport'], 'expected': exp['transport']},
              sig='transport')
    defaults = {'pib': HOME + '/.ndn', 'tpm': HOME + '/.ndn/ndnsec-key-file'}
    for k in ('pib', 'tpm'):
        scheme, _, loc = exp[k].partition(':')
        gs, _, gl = got[k].partition(':')
        eng.check(gs == scheme, 'precedence', {'item': k, 'got': got[k]}, sig=k + '-scheme')
        if loc and ex(loc):
            want = loc                                              # exists: used as given
        else:
            rel = posixpath.join(posixpath.dirname(path), loc) if loc else ''
            if rel and ex(rel):
                want = rel                                          # relative to the configuration file
            elif ex(defaults[k]):
                want = defaults[k]                                  # platform default location
            else:
                want = None                                         # nothing exists: not specified by the statement
        if want is not None:
            eng.check(gl == want, 'store-location', {'item': k, 'got': gl, 'expected': want}, sig=k + '-location')
    # keychain construction from the resolved values
    if not (got['pib'].startswith('pib-sqlite3') and got['tpm'].startswith('tpm-file')):
        eng.observe('conf', got)
        eng.reach('end')
        return
    try:
        cc.default_keychain(got['pib'], got['tpm'])
        eng.check(('tpm-file', got['tpm'].partition(':')[2]) in log, 'keychain-arguments')
        eng.check(('pib-sqlite3', posixpath.join(got['pib'].partition(':')[2], 'pib.db')) in log, 'keychain-arguments')
    except Exception as e:
        eng.fail('keychain-arguments', exc_sig(e))
    eng.observe('conf', got)
    eng.reach('end')


URIS = [('unix:///run/nfd.sock', ('unix', '/run/nfd.sock', None)), ('unix:///a/b c.sock', ('unix', '/a/b c.sock', None)),
        ('tcp://h.example', ('tcp', 'h.example', 6363)), ('tcp4://10.1.2.3:7000', ('tcp', '10.1.2.3', 7000)),
        ('tcp6://[::1]:6364', ('tcp', '::1', 6364)), ('udp://h.example:9', ('udp', 'h.example', 9)),
        ('udp4://1.2.3.4', ('udp', '1.2.3.4', 6363)), ('udp6://[fe80::1]', ('udp', 'fe80::1', 6363)),
        ('ws://h.example:9696', None), ('bogus://x', None), ('', None), ('tcp', None), ('http://h/', None)]

# scheme grid: every base x suffix; only the seven documented schemes select a face
KNOWN = {'unix': 'unix', 'tcp': 'tcp', 'tcp4': 'tcp', 'tcp6': 'tcp', 'udp': 'udp', 'udp4': 'udp', 'udp6': 'udp'}
for _b in ('unix', 'tcp', 'udp', 'ws', 'tc', 'ud', 'tcpp', 'udpp', 't', 'u'):
    for _s in ('', '4', '6', '46', '64', '44', '66', '0', '5', '7', '4a', '-4', '.6', '+4', '4-', '6.'):
        _sch = _b + _s
        if any(u[0].startswith(_sch + ':') for u in URIS):
            continue
        if _sch in KNOWN:
            if KNOWN[_sch] == 'unix':
                URIS.append((_sch + ':///run/g.sock', ('unix', '/run/g.sock', None)))
            else:
                URIS.append((_sch + '://g.example:7001', (KNOWN[_sch], 'g.example', 7001)))
        else:
            URIS.append((_sch + ('://g.example:7001' if not _b.startswith('unix') else ':///run/g.sock'), None))


def h_face(eng, case):
    import ndn.client_conf as cc
    from ndn.transport.stream_face import UnixFace, TcpFace
    from ndn.transport.udp_face import UdpFace
    uri, exp = URIS[case['i']]
    try:
        f = cc.default_face(uri)
        err = None
    except ValueError:
        f = None
        err = 'ValueError'
    except Exception as e:
        f = None
        err = exc_sig(e)
    if exp is None:
        eng.check(err == 'ValueError', 'face-of-uri', {'uri': uri, 'err': err, 'face': type(f).__name__},
                  sig='unknown-scheme:%s' % ('accepted' if err is None else err))
    else:
        kind, host, port = exp
        ok = err is None
        if ok and kind == 'unix':
            ok = isinstance(f, UnixFace) and f.path == host
        elif ok and kind == 'tcp':
            ok = isinstance(f, TcpFace) and f.host == host and f.port == port
        elif ok:
            ok = isinstance(f, UdpFace) and f.host == host and f.port == port
        eng.check(ok, 'face-of-uri', {'uri': uri, 'err': err, 'face': type(f).__name__,
                                      'attrs': repr(getattr(f, '__dict__', None))[:100]}, sig='wrong-face:' + kind)
    eng.observe('err', err)
    eng.reach('end')


HARNESSES = {'conf': h_conf, 'face': h_face}


def cases(tier, seed):
    cs = [('conf', {}, {'weight': 100, 'split_depth': 6}), ('conf', {'warm': True}, {'weight': 30, 'split_depth': 5}),
          ('conf', {'links': True}, {'weight': 30, 'split_depth': 5}), ('conf', {'odd': True}, {'weight': 30, 'split_depth': 5}),
          ('conf', {'schemes': True}, {'weight': 30, 'split_depth': 5})]
    for i in range(len(URIS)):
        cs.append(('face', {'i': i}))
    if tier != 'quick':
        cs.append(('conf', {'wide': True}, {'weight': 300, 'split_depth': 7}))
    return cs
