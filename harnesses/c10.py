# C10 -- link-layer envelopes are transparent: Nack, PIT token and wrapped packets.
# Real code executed symbolically: parse_lp_packet_v2, parse_lp_packet, make_network_nack, LpPacketValue codec,
# appv2._receive / _on_nack / _on_interest (reply closure) / _put_raw_packet_with_pit_token, app._receive / _on_nack.
import asyncio
from symex import vloop
from symex.api import And, Or, Not, Implies, Iff, blist, bwrap, beq, exc_sig, as_int, tobytes
from . import env, appenv, ref, modelgen as mg

PROPERTY = 'C10'
INFO = {
    'explanation': 'C10: (codec) LpPacket encode/parse for symbolic Nack reasons, tokens and optional headers, plus one '
                   'unknown header of symbolic type; (equivalence) two fresh applications in the same state receive X and '
                   'LP(X) and must behave identically; (nack) an envelope with a Nack header completes the pending Interest '
                   'with exactly that reason for all reasons in [0,2^64); (fragments) fragmentation headers make the envelope '
                   'be dropped; (tokens) two incoming Interests with symbolic tokens, replies in either order, each reply '
                   'carries the token of its own Interest and the reply bytes unmodified.',
    'bounds': {'quick': {'nack_reason': '[0,2^64)', 'pit_token': '0..4 symbolic bytes, lengths 8 and 32 with 2 symbolic bytes',
                         'optional_headers': 'each present/absent by choice with symbolic 64-bit values',
                         'unknown_header': 'type symbolic in [0x54..0xFC] and [0x0320..0x03FF] ranges, 0..2 bytes'}},
    'outside': ['more than two outstanding Interests with tokens', 'fragment reassembly (not implemented by the library)'],
    'assumptions': ['virtual-time loop'],
}
MANDATORY = {'codec': ['lp-roundtrip'], 'equiv': ['wrapped-equals-bare'], 'nack': ['nack-reason'], 'tokens': ['token-pairing']}


def _lp():
    from ndn.encoding import ndnlp_v2 as lp
    return lp


def build_lp(eng, hdr, fragment):
    """LpPacket with the headers in dict hdr (values may be symbolic); encoded by the real encoder"""
    lp = _lp()
    pk = lp.LpPacket()
    pk.lp_packet = lp.LpPacketValue()
    v = pk.lp_packet
    for k, x in hdr.items():
        if k == 'nack':
            v.nack = lp.NetworkNack()
            v.nack.nack_reason = x
        elif k == 'cache_policy':
            v.cache_policy = lp.CachePolicy()
            v.cache_policy.cache_policy_type = x
        else:
            setattr(v, k, x)
    if fragment is not None:
        v.fragment = fragment
    return tobytes(pk.encode())


LP_TYPES = {'frag_index': 0x52, 'frag_count': 0x53, 'pit_token': 0x62, 'nack': 0x0320, 'incoming_face_id': 0x032C,
            'next_hop_face_id': 0x0330, 'cache_policy': 0x0334, 'congestion_mark': 0x0340, 'ack': 0x0344,
            'tx_sequence': 0x0348, 'non_discovery': 0x034C, 'prefix_announcement': 0x0350}


def canonical_lp(eng, hdr, fragment):
    """the envelope as a forwarder sends it: written by the harness's own writer (not the library's encoder), header
    fields in increasing type-number order as NDNLPv2 prescribes, Fragment last"""
    body = []
    for k in sorted(hdr, key=lambda k: LP_TYPES[k]):
        x = hdr[k]
        t = LP_TYPES[k]
        if k == 'nack':
            val = mg.w_tlv(0x0321, mg.w_uint(x, None)) if x is not None else []
        elif k == 'cache_policy':
            val = mg.w_tlv(0x0335, mg.w_uint(x, None))
        elif k in ('pit_token', 'ack', 'tx_sequence', 'prefix_announcement'):
            val = blist(x)
        elif k == 'non_discovery':
            val = []
        else:
            val = mg.w_uint(x, None)
        body += mg.w_tlv(t, val)
    if fragment is not None:
        body += mg.w_tlv(0x50, blist(fragment))
    return bwrap(mg.w_tlv(0x64, body))


def sym_headers(eng, allow=('incoming_face_id', 'next_hop_face_id', 'congestion_mark', 'cache_policy', 'tx_sequence',
                            'ack', 'non_discovery', 'prefix_announcement')):
    hdr = {}
    for k in allow:
        if eng.choice(2, k + '?'):
            if k in ('tx_sequence', 'ack', 'prefix_announcement'):
                hdr[k] = eng.bytes(k, 2)
            elif k == 'non_discovery':
                hdr[k] = True
            else:
                hdr[k] = eng.int(k, 0, 2 ** 64 - 1)
    return hdr


def h_codec(eng, case):
    import ndn.encoding as enc
    lp = _lp()
    interest = bytes(enc.make_interest('/a/b', enc.InterestParam(nonce=1)))
    reason = eng.int('reason', 0, 2 ** 64 - 1)
    try:
        w = enc.make_network_nack(interest, reason)
        r, frag = enc.parse_lp_packet(w)
        eng.check(And(r is not None, r == reason), 'lp-roundtrip')
        eng.check(beq(frag, interest), 'lp-roundtrip')
        rv = ref.parse_lp(blist(w))
        eng.check(And(rv.get('nack', {}).get('nack_reason') == reason, beq(rv.get('fragment'), interest)), 'lp-reference')
        # general envelope
        tl = case['token_len']
        token = None if tl is None else bwrap(blist(eng.bytes('token', min(tl, 4))) + [7] * max(0, tl - 4))
        hdr = sym_headers(eng, case['headers'])
        if token is not None:
            hdr['pit_token'] = token
        w2 = build_lp(eng, hdr, interest)
        v = enc.parse_lp_packet_v2(w2)
        eng.check(beq(v.pit_token, token), 'lp-roundtrip')
        eng.check(beq(v.fragment, interest), 'lp-roundtrip')
        for k, x in hdr.items():
            if k in ('incoming_face_id', 'next_hop_face_id', 'congestion_mark'):
                eng.check(getattr(v, k) == x, 'lp-roundtrip')
        eng.check(v.nack is None, 'lp-roundtrip')
        # the same headers in a canonical (increasing type order) envelope, together with a Nack header
        hdr2 = dict(hdr)
        hdr2['nack'] = reason
        if 'ack' in hdr2 and 'tx_sequence' in hdr2:
            del hdr2['ack']
        w4 = canonical_lp(eng, hdr2, interest)
        v4 = enc.parse_lp_packet_v2(w4)
        eng.check(And(v4.nack is not None, beq(v4.fragment, interest), beq(v4.pit_token, token)), 'canonical-envelope',
                  sig='header-lost')
        if v4.nack is not None:
            eng.check(v4.nack.nack_reason == reason, 'canonical-envelope', sig='reason')
        for k, x in hdr2.items():
            if k in ('incoming_face_id', 'next_hop_face_id', 'congestion_mark'):
                eng.check(getattr(v4, k) is not None and getattr(v4, k) == x, 'canonical-envelope', sig='header-lost:' + k)
        r4, f4 = enc.parse_lp_packet(w4)
        eng.check(And(r4 is not None, r4 == reason, beq(f4, interest)), 'canonical-envelope', sig='parse_lp_packet')
        # one unknown header inserted in front of the fragment: ignored
        form = case['unk_form']
        if form:
            lo, hi = (0x54, 0xFC) if form == 1 else (0x0322, 0x03FF)
            typ = eng.int('utyp', lo, hi)
            known = [0x62, 0x50, 0x51, 0x52, 0x53, 0x0320, 0x0321, 0x032C, 0x0330, 0x0334, 0x0335, 0x0340, 0x0344, 0x0348,
                     0x034C, 0x0350]
            for kt in known:
                eng.assume(typ != kt)
            uval = eng.bytes('uval', case['unk_len'])
            w2l = blist(w2)
            rv2 = ref.parse_lp(w2l)
            o = ref.outer(w2l, 0x64)
            body = w2l[o.vs:o.ve]
            ins = env.num_bytes(typ, form) + [case['unk_len']] + blist(uval)
            nb = ins + body
            n = len(nb)
            w3 = bwrap([0x64] + ([n] if n <= 0xFC else [0xFD] + list(n.to_bytes(2, 'big'))) + nb)
            v3 = enc.parse_lp_packet_v2(w3)
            eng.check(And(beq(v3.fragment, interest), beq(v3.pit_token, token)), 'unknown-header-ignored')
    except Exception as e:
        eng.fail('no-exception', exc_sig(e), repr(e)[:150])
        return
    eng.observe('w', w)
    eng.reach('end')


def _mk_state(front, eng, calls, outcomes, tag, cbp=False, iname='/a/b'):
    """fresh application with one handler on /p and one pending Interest on /a/b"""
    import ndn.types as types
    app, face = appenv.make_app(front)

    async def pass_v2(name, sig, ctx):
        return types.ValidResult.PASS

    async def pass_v1(name, sig):
        return True
    if front == 'v2':
        def handler(name, ap, reply, ctx):
            calls.append((tag, [bytes(c) for c in name], None if ap is None else bytes(ap)))
            reply(REPLY[0])
        app.attach_handler('/p', handler, pass_v2)
    else:
        def handler(name, param, ap):
            calls.append((tag, [bytes(c) for c in name], None if ap is None else bytes(ap)))
            app.put_raw_packet(REPLY[0])
        app.set_interest_filter('/p', handler, pass_v1)

    async def consumer():
        try:
            if front == 'v2':
                n, c, ctx = await app.express(iname, pass_v2, lifetime=4000, nonce=9, can_be_prefix=cbp)
                raw = ctx.get('raw_packet')
            else:
                n, m, c = await app.express_interest(iname, validator=pass_v1, lifetime=4000, nonce=9,
                                                     can_be_prefix=cbp)
                raw = None
            outcomes[tag] = ('data', None if c is None else bytes(c), None if raw is None else bytes(raw))
        except types.InterestNack as e:
            outcomes[tag] = ('nack', e.reason)
        except Exception as e:
            outcomes[tag] = (type(e).__name__,)
    return app, face, consumer


REPLY = [None]


def h_equiv(eng, case):
    """X bare vs X inside an envelope with arbitrary optional headers (no token): same observable behaviour"""
    import ndn.encoding as enc
    front = case['front']
    REPLY[0] = bytes(enc.make_data('/p/x', enc.MetaInfo(), b'reply'))
    kinds = {
        'interest': (5, bytes(enc.make_interest('/p/x', enc.InterestParam(nonce=2, lifetime=500)))),
        'interest_other': (5, bytes(enc.make_interest('/q', enc.InterestParam(nonce=2)))),
        'data': (6, bytes(enc.make_data('/a/b', enc.MetaInfo(), b'payload'))),
        'data_other': (6, bytes(enc.make_data('/z', enc.MetaInfo(), b'nope'))),
        'garbage': (6, b'\x06\x03\x07\x05\x00'),
    }
    typ, x = kinds[case['kind']]
    hdr = sym_headers(eng, case['headers'])
    wrapped = canonical_lp(eng, hdr, x) if case.get('canonical', True) else build_lp(eng, hdr, x)
    calls, outcomes = [], {}
    iname = '/a/b'
    if case.get('digest'):
        # the pending Interest names the Data by its implicit digest: the hash is that of the network packet, with
        # or without an envelope around it
        import hashlib
        iname = enc.Name.from_str('/a/b') + [enc.Component.from_bytes(hashlib.sha256(kinds['data'][1]).digest(), 1)]
    appA, faceA, consA = _mk_state(front, eng, calls, outcomes, 'bare', iname=iname)
    appB, faceB, consB = _mk_state(front, eng, calls, outcomes, 'lp', iname=iname)

    async def main(loop):
        ta = asyncio.ensure_future(consA())
        tb = asyncio.ensure_future(consB())
        await asyncio.sleep(0)
        na, nb = len(faceA.out), len(faceB.out)
        await vloop.sleep_until(loop, loop.at_ms(5))
        try:
            await appA._receive(typ, x)
            await appB._receive(0x64, wrapped)
        except Exception as e:
            eng.fail('receive-returns', exc_sig(e), repr(e)[:100])
        for _ in range(4):
            await asyncio.sleep(0)
        await vloop.sleep_until(loop, loop.at_ms(6000))
        await ta
        await tb
        return faceA.out[na:], faceB.out[nb:]
    loop, r, err = appenv.run(eng, main)
    if err or r is None:
        eng.fail('wrapped-equals-bare', 'deadlock')
        return
    outA, outB = r
    ca = [c[1:] for c in calls if c[0] == 'bare']
    cb = [c[1:] for c in calls if c[0] == 'lp']
    eng.check(ca == cb, 'wrapped-equals-bare', {'bare': repr(ca)[:80], 'lp': repr(cb)[:80]}, sig='handler-invocations-differ')
    eng.check(outcomes.get('bare') == outcomes.get('lp'), 'wrapped-equals-bare',
              {'bare': repr(outcomes.get('bare')), 'lp': repr(outcomes.get('lp'))}, sig='pending-outcomes-differ')
    same_out = len(outA) == len(outB)
    if same_out:
        for a, b in zip(outA, outB):
            same_out = And(same_out, beq(a, b))
    eng.check(same_out, 'wrapped-equals-bare', {'bare': len(outA), 'lp': len(outB)}, sig='face-output-differs')
    eng.observe('calls', len(calls))
    eng.observe('outcome', repr(outcomes.get('bare')))
    eng.reach('end')


def h_nack(eng, case):
    """an envelope with a Nack header completes the Interests it names with precisely that reason"""
    import ndn.encoding as enc
    front = case['front']
    REPLY[0] = b''
    calls, outcomes = [], {}
    app, face, cons = _mk_state(front, eng, calls, outcomes, 'x', cbp=bool(case.get('cbp')))
    reason = eng.int('reason', 0, 2 ** 64 - 1)
    hdr = sym_headers(eng, case['headers'])
    hdr['nack'] = reason
    if case.get('token'):
        hdr['pit_token'] = eng.bytes('token', case['token'])
    which = case['target']            # 'pending' : the pending Interest's own bytes ; 'other' : another name

    async def main(loop):
        t = asyncio.ensure_future(cons())
        await asyncio.sleep(0)
        sent = face.out[-1]
        other = {'other': '/a/c', 'longer': '/a/b/x', 'shorter': '/a', 'root': '/'}.get(which)
        frag = sent if which == 'pending' else bytes(enc.make_interest(other, enc.InterestParam(
            nonce=9, can_be_prefix=bool(case.get('cbp')))))
        w = canonical_lp(eng, hdr, frag) if case.get('canonical', True) else build_lp(eng, hdr, frag)
        await vloop.sleep_until(loop, loop.at_ms(5))
        try:
            await app._receive(0x64, w)
        except Exception as e:
            eng.fail('receive-returns', exc_sig(e), repr(e)[:100])
        await vloop.sleep_until(loop, loop.at_ms(5000))
        await t
    loop, r, err = appenv.run(eng, main)
    got = outcomes.get('x')
    if which == 'pending':
        ok = got is not None and got[0] == 'nack'
        eng.check(ok, 'nack-reason', {'got': repr(got)}, sig='no-nack-outcome')
        if ok:
            eng.check(got[1] == reason, 'nack-reason', sig='wrong-reason')
    else:
        eng.check(got == ('InterestTimeout',), 'nack-names-only-its-interest', {'got': repr(got)})
    eng.check(len(calls) == 0, 'nack-is-not-delivered-to-handlers')
    eng.observe('got', got[0] if got else None)
    eng.reach('end')


def h_frag(eng, case):
    """fragmentation headers: the envelope is dropped, nothing else changes"""
    import ndn.encoding as enc
    front = case['front']
    REPLY[0] = bytes(enc.make_data('/p/x', enc.MetaInfo(), b'reply'))
    calls, outcomes = [], {}
    app, face, cons = _mk_state(front, eng, calls, outcomes, 'x')
    hdr = {}
    sel = eng.choice(3, 'fraghdr')
    if sel in (0, 2):
        hdr['frag_index'] = eng.int('frag_index', 0, 2 ** 64 - 1)
    if sel in (1, 2):
        hdr['frag_count'] = eng.int('frag_count', 0, 2 ** 64 - 1)
    inner = [bytes(enc.make_data('/a/b', enc.MetaInfo(), b'payload')),
             bytes(enc.make_interest('/p/x', enc.InterestParam(nonce=2)))][eng.choice(2, 'inner')]

    async def main(loop):
        t = asyncio.ensure_future(cons())
        await asyncio.sleep(0)
        n0 = len(face.out)
        w = build_lp(eng, hdr, inner)
        try:
            await app._receive(0x64, w)
        except Exception as e:
            eng.fail('receive-returns', exc_sig(e), repr(e)[:100])
        for _ in range(4):
            await asyncio.sleep(0)
        n1 = len(face.out)
        await vloop.sleep_until(loop, loop.at_ms(5000))
        await t
        return n1 - n0
    loop, r, err = appenv.run(eng, main)
    eng.check(outcomes.get('x') == ('InterestTimeout',), 'fragment-dropped', {'got': repr(outcomes.get('x'))})
    eng.check(len(calls) == 0 and r == 0, 'fragment-dropped', {'calls': len(calls), 'sent': r})
    eng.reach('end')


def h_tokens(eng, case):
    """two incoming Interests with symbolic tokens, replies in either order"""
    import ndn.encoding as enc
    import ndn.types as types
    app, face = appenv.make_app('v2')
    saved = {}

    async def pass_v2(name, sig, ctx):
        return types.ValidResult.PASS

    def handler(name, ap, reply, ctx):
        saved[bytes(name[-1])] = (reply, ctx)
    app.attach_handler('/p', handler, pass_v2)
    toks = []
    for i in range(2):
        L = case['lens'][i]
        if L is None:
            toks.append(None)
        else:
            toks.append(bwrap(blist(eng.bytes('tok%d' % i, min(L, 4))) + [i + 1] * max(0, L - 4)))
    ints = [bytes(enc.make_interest('/p/%d' % i, enc.InterestParam(nonce=i + 1, lifetime=4000))) for i in range(2)]
    datas = [bytes(enc.make_data('/p/%d' % i, enc.MetaInfo(), b'reply%d' % i)) for i in range(2)]
    if case.get('dlen'):
        # reply 0 has exactly this many octets on the wire: the envelope around it (token + fragment headers) crosses
        # a length-of-length boundary although the reply itself does not (or the other way round)
        base = len(bytes(enc.make_data('/p/0', enc.MetaInfo(), b'')))
        for c in range(max(0, case['dlen'] - base - 4), case['dlen']):
            d = bytes(enc.make_data('/p/0', enc.MetaInfo(), bytes((k * 5 + 1) & 0xFF for k in range(c))))
            if len(d) == case['dlen']:
                datas[0] = d
                break
        else:
            return                       # no content length gives this wire length (length field changes width)
    order = [(0, 1), (1, 0)][eng.choice(2, 'order')]

    async def main(loop):
        for i in range(2):
            if toks[i] is None:
                await app._receive(5, ints[i])
            else:
                await app._receive(0x64, canonical_lp(eng, {'pit_token': toks[i], 'congestion_mark': 1}, ints[i]))
            for _ in range(3):
                await asyncio.sleep(0)
        res = {}
        for i in order:
            key = b'\x08\x01' + str(i).encode()
            if key not in saved:
                continue
            n0 = len(face.out)
            try:
                ret = saved[key][0](datas[i])
            except Exception as e:
                ret = ('exc', exc_sig(e))
            res[i] = (ret, face.out[n0:], saved[key][1].get('pit_token'))
        return res
    loop, res, err = appenv.run(eng, main)
    if res is None:
        eng.fail('token-pairing', 'deadlock')
        return
    for i in range(2):
        if i not in res:
            eng.fail('token-pairing', 'handler-not-invoked', {'i': i})
            continue
        ret, sent, ctx_tok = res[i]
        if isinstance(ret, tuple):
            eng.fail('token-pairing', 'reply-raises:' + ret[1], {'i': i, 'reply_octets': len(datas[i])})
            continue
        eng.check(len(sent) == 1, 'token-pairing', {'sent': len(sent)}, sig='reply-count')
        if len(sent) != 1:
            continue
        if toks[i] is None:
            eng.check(beq(sent[0], datas[i]), 'token-pairing', sig='bare-reply-modified')
            eng.check(ctx_tok is None, 'token-pairing', sig='context-token')
        else:
            try:
                v = ref.parse_lp(blist(sent[0]))
            except ref.RefReject as e:
                eng.fail('token-pairing', 'reply-not-an-envelope:' + e.args[0])
                continue
            eng.check(beq(v.get('pit_token'), toks[i]), 'token-pairing', sig='wrong-token')
            eng.check(beq(v.get('fragment'), datas[i]), 'token-pairing', sig='reply-bytes-modified')
            eng.check(beq(ctx_tok, toks[i]), 'token-pairing', sig='context-token')
    eng.reach('end')


HARNESSES = {'codec': h_codec, 'equiv': h_equiv, 'nack': h_nack, 'frag': h_frag, 'tokens': h_tokens}


def cases(tier, seed):
    cs = []
    quick = tier == 'quick'
    H1 = ['incoming_face_id', 'congestion_mark']
    H2 = ['next_hop_face_id', 'cache_policy', 'non_discovery']
    H3 = ['tx_sequence', 'ack', 'prefix_announcement']
    for tl in (None, 0, 1, 4, 8, 32, 33):
        for hs in (H1, H2, H3):
            for form, ul in ((0, 0), (1, 0), (1, 2), (3, 1)):
                if quick and tl in (8, 33) and form:
                    continue
                cs.append(('codec', {'token_len': tl, 'headers': hs, 'unk_form': form, 'unk_len': ul}))
    for front in ('v2', 'v1'):
        for kind in ('interest', 'interest_other', 'data', 'data_other', 'garbage'):
            for hs in (H1, H2 + H3[:1]) if quick else (H1, H2, H3):
                cs.append(('equiv', {'front': front, 'kind': kind, 'headers': hs}, {'weight': 5}))
                if kind == 'data':
                    cs.append(('equiv', {'front': front, 'kind': kind, 'headers': hs, 'digest': True}, {'weight': 5}))
        for target in ('pending', 'other'):
            for hs in ([], H1):
                for tok in (0, 4) if front == 'v2' or hs == [] else (0,):
                    cs.append(('nack', {'front': front, 'target': target, 'headers': hs, 'token': tok}, {'weight': 3}))
                cs.append(('nack', {'front': front, 'target': target, 'headers': hs, 'canonical': False}, {'weight': 3}))
        # a Nack that names a longer / shorter name than the pending Interest (which may carry CanBePrefix) names
        # another Interest
        for target in ('longer', 'shorter', 'root'):
            for cbp in (False, True):
                cs.append(('nack', {'front': front, 'target': target, 'headers': [], 'token': 0, 'cbp': cbp}, {'weight': 3}))
        cs.append(('frag', {'front': front}, {'weight': 3}))
    for l0 in (None, 0, 2, 4, 32):
        for l1 in (None, 0, 2, 4, 32):
            if l0 is None and l1 is None:
                continue
            cs.append(('tokens', {'lens': [l0, l1]}))
    # reply sizes around the places where the envelope's own length field changes width
    for tl in (0, 3, 32):
        for dlen in list(range(210, 262)) + list(range(65480, 65542, 1 if not quick else 3)):
            if quick and tl == 3 and dlen % 2:
                continue
            cs.append(('tokens', {'lens': [tl, None], 'dlen': dlen}))
    return cs
