# C11 -- a compiled trust schema matches exactly the names its source text describes.
# Real code: compile_lvs (parser.py, compiler.py: _sort_rule_references, _gen_pattern_numbers, _replicate_rules,
# _generate_node, _fix_signing_references) runs concretely on each schema text; executed symbolically on the name:
# Checker.__init__/_sanity_check, Checker.match, _match, _check_cons, _context_to_name, DEFAULT_USER_FNS,
# Checker.save / Checker.load (LvsModel TLV codec), Name.normalize, Component.get_type.
import os
import re
from symex.api import And, Or, Not, blist, bwrap, beq, exc_sig
from . import env, lvsref

PROPERTY = 'C11'
INFO = {
    'explanation': 'C11: schemas are concrete programs (hand-written shapes, the schemas of the test file, generated from '
                   'VERIF_SEED); the NAME is symbolic: every length 0..L+1, every component any 1-byte (or 2-byte) generic '
                   'value, one slot of symbolic type.  The set of (rule, named bindings) reported by the real checker - '
                   'on the compiled model and on the model saved to bytes and loaded again - must equal the set computed '
                   'by a reference evaluator working on the source text (own parser, own expansion).',
    'bounds': {'quick': {'schemas': '14 hand-written shapes, the well-formed schemas of light_versec_test.py, 20 generated',
                         'name': 'length 0..L+1 (L <= 8; L-1..L+1 for the three hand-written schemas with 10-12 components), components 08 01 xx with xx symbolic; one variant with a 2-byte '
                                 'component and one with a component of symbolic type'},
               'thorough': {'schemas': '+ 400 generated'}},
    'outside': ['schemas outside the generator shapes', 'user functions other than $eq, $eq_type and one custom predicate',
                'component values longer than 2 bytes'],
    'assumptions': ['schema texts are concrete; literal conversion uses Component.from_str (covered by C09)'],
}
MANDATORY = {'match': ['match-set-equals-reference']}
_CACHE = {}
SYNTH = re.compile(r'^#_\d+$')


def load_schema(key, text):
    """(reference schema, compiled model bytes) or an error marker"""
    if key not in _CACHE:
        from ndn.app_support.light_versec import compile_lvs, Checker
        try:
            ref = lvsref.Schema(text)
        except lvsref.LvsSyntaxError as e:
            _CACHE[key] = ('ref-rejects', str(e))
            return _CACHE[key]
        fns = set(o[1] for cs in ref.chains.values() for c in cs for _, opts in c.cons for o in opts if o[0] == 'fn')
        if not fns <= ({'$eq', '$eq_type'} | set(lvsref.USER_FNS)):
            _CACHE[key] = ('unsupported-user-function', sorted(fns))
            return _CACHE[key]
        try:
            compile_lvs(text)
            # the model under test comes from compiling the same text a second time in the same process (a compiler
            # is used for many schemas, and for the same schema again, in its life)
            model = compile_lvs(text)
        except Exception as e:
            _CACHE[key] = ('compile-rejects', repr(e))
            return _CACHE[key]
        try:
            Checker(model, user_fns())
        except Exception as e:
            _CACHE[key] = ('checker-rejects', repr(e))
            return _CACHE[key]
        _CACHE[key] = ('ok', ref, model)
    return _CACHE[key]


def user_fns():
    from ndn.app_support.light_versec import DEFAULT_USER_FNS
    d = dict(DEFAULT_USER_FNS)
    for k, (lib, _ref) in lvsref.USER_FNS.items():
        d[k] = lib
    return d


def sym_name(eng, case, tag='n'):
    """symbolic name according to the case: lengths list per component (1 or 2 value bytes), optional typed slot"""
    comps = []
    for i, k in enumerate(case['shape']):
        if k == 't':
            t = eng.int('%s%d.t' % (tag, i), 1, 0xFC)
            comps.append(bwrap([t, 1] + blist(eng.bytes('%s%d.v' % (tag, i), 1))))
        else:
            comps.append(bwrap([8, k] + blist(eng.bytes('%s%d.v' % (tag, i), k))))
    return comps


def impl_matches(eng, checker, name):
    out = set()
    ids = {id(c): i for i, c in enumerate(name)}
    for rules, ctx in checker.match(name):
        b = []
        for pat, val in ctx.items():
            if id(val) not in ids:
                raise AssertionError('binding is not a component of the name')
            b.append((pat, ids[id(val)]))
        for r in rules:
            if SYNTH.match(r):
                continue          # documented placeholder for a node where no rule ends: not a rule
            out.add((r, frozenset(b)))
    return out


def h_match(eng, case):
    from ndn.app_support.light_versec import Checker
    st = load_schema(case['schema'], case['text'])
    if st[0] != 'ok':
        eng.reach('schema-not-usable:' + st[0])
        return
    _, ref, model = st
    fns = user_fns()
    name = sym_name(eng, case)
    try:
        checker = Checker(model, fns)
        if case.get('reload'):
            checker = Checker.load(checker.save(), fns)
    except Exception as e:
        eng.fail('checker-builds', exc_sig(e), repr(e)[:150])
        return
    if case.get('twice'):
        # the same checker object answers an earlier query first (its verdicts must not leak into the next one)
        first = sym_name(eng, case, 'm')
        try:
            impl_matches(eng, checker, first)
        except Exception as e:
            eng.fail('match-no-exception', exc_sig(e), repr(e)[:150])
            return
    # reference first (it decides whether the path is inside the claim)
    rname = list(name)
    if rname:
        if lvsref.comp_type(rname[-1]) == 1:
            rname = rname[:-1]
    try:
        flags = {}
        exp = lvsref.ref_match(ref, rname, flags)
    except lvsref.UnboundFnArg:
        eng.reach('unbound-function-argument-not-claimed')
        return
    try:
        got = impl_matches(eng, checker, name)
    except Exception as e:
        eng.fail('match-no-exception', exc_sig(e), repr(e)[:150])
        return
    if got != exp:
        missing = sorted(r for r, b in exp - got)
        extra = sorted(r for r, b in got - exp)
        sig = ('missing' if missing else '') + ('+' if missing and extra else '') + ('extra' if extra else '')
        if missing and not extra and all(all(flags[k]) for k in exp - got):
            sig = 'missing:constrained-temporary-pattern-of-a-rule-referenced-twice'
        eng.fail('match-set-equals-reference', sig, {'schema': case['schema'], 'missing': missing[:3], 'extra': extra[:3]})
        return
    eng.check(True, 'match-set-equals-reference')
    eng.observe('matches', sorted((r, sorted(b)) for r, b in got))
    eng.reach('end')


HARNESSES = {'match': h_match}


def shapes_for(L, quick):
    out = []
    for n in range(0, L + 2):
        out.append([1] * n)
    if L >= 1:
        out.append([2] + [1] * (L - 1))
        out.append([1] * L + ['t'])
        out.append([1] * (L - 1) + ['t'])
        out.append(['t'])
    return out


def cases(tier, seed):
    repo = os.environ.get('VERIF_REPO', '/repo')
    cat = lvsref.catalogue(tier, seed, repo)
    cs = []
    for key, text in sorted(cat.items()):
        st = load_schema(key, text)
        if st[0] != 'ok':
            continue
        L = st[1].max_len()
        if L > 8 and not key.startswith('hand_'):
            continue
        shapes = shapes_for(L, tier == 'quick')
        if L > 8:
            shapes = [s for s in shapes if len(s) >= L - 1 and 't' not in s]     # long hand-written rules: few constraints
        for sh in shapes:
            for reload in (False, True):
                if reload and tier == 'quick' and len(sh) not in (L, L - 1):
                    continue
                cs.append(('match', {'schema': key, 'text': text, 'shape': sh, 'reload': reload},
                           {'weight': 1 + len(sh) ** 2}))
                if '$' in text and not reload and 2 <= len(sh) <= 3 and 't' not in sh and 2 not in sh:
                    cs.append(('match', {'schema': key, 'text': text, 'shape': sh, 'reload': reload, 'twice': True},
                               {'weight': 1 + len(sh) ** 4}))
    return cs
