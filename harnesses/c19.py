# C19 -- segmented fetch yields every segment once, in order, tolerating bounded loss.
# Real code executed symbolically: app_support.segment_fetcher.segment_fetcher (generator and retry loop),
# Component.from_segment / to_number / get_type, Name.normalize.  The producer is a stub express_interest.
import asyncio
from symex.api import And, Or, Not, blist, bwrap, beq, exc_sig, as_int
from . import env, appenv

PROPERTY = 'C19'
INFO = {
    'explanation': 'C19: the real async generator is driven against a stub producer; which segment answers the '
                   'discovery Interest (a symbolic 64-bit segment number), whether each individual response is lost '
                   '(one solver Boolean per attempt), the retry limit, the object size, the position and form of the '
                   'final-block marker and an injected Nack / validation failure are explored; the yielded sequence, '
                   'the Interests seen by the producer and the final outcome are compared with the statement.',
    'bounds': {'quick': {'segments': '0..4 (and an unsegmented object)', 'retry_times': '1..3',
                         'loss': 'every pattern of lost responses (each attempt a Boolean)',
                         'discovery_segment': 'symbolic in [0,2^64)', 'final_marker': 'absent / true last / earlier / '
                         'a non-segment component'},
               'thorough': {'segments': '0..6'}},
    'outside': ['objects with more segments than the bound', 'real timing (the stub answers immediately)'],
    'assumptions': ['the stub producer implements express_interest as documented (returns name, meta, content or raises '
                    'InterestTimeout / InterestNack / ValidationFailure)'],
}
MANDATORY = {'fetch': ['yielded-sequence'], 'fetch_app': ['yielded-sequence', 'final-outcome']}


def h_fetch(eng, case):
    import ndn.encoding as enc
    import ndn.types as types
    from ndn.app_support.segment_fetcher import segment_fetcher
    from ndn.encoding import Component, Name
    N = case['N']                      # number of segments; None = unsegmented object
    retry = case['retry']
    prefix = Name.from_str('/obj')
    marker = case['marker']            # None | 'last' | index | 'nonseg'
    fail_kind = case.get('fail')       # None | 'nack' | 'vfail'
    seen = []
    lost_log = []

    vary = {}

    def final_id(i):
        if marker == 'vary':
            # every segment carries its own announcement: none, itself, a later segment, one beyond the object
            if i not in vary:
                vary[i] = eng.choice(4, 'fbi%d' % i)
            return [None, bytes(Component.from_segment(i)), bytes(Component.from_segment(i + 1)),
                    bytes(Component.from_segment(N + 3))][vary[i]]
        if marker is None:
            return None
        if marker == 'nonseg':
            return bytes(Component.from_version(N - 1 if N else 0))
        j = (N - 1) if marker == 'last' else marker
        return bytes(Component.from_segment(j))

    k_disc = eng.int('k', 0, 2 ** 64 - 1) if N else None
    fail_at = eng.int('fail_at', 0, 12) if fail_kind else None
    calls = {'n': 0}

    class StubApp:
        def express_interest(self, name, validator=None, can_be_prefix=False, must_be_fresh=False, lifetime=None, **kw):
            async def co():
                n = Name.normalize(name)
                seen.append(([c for c in n], can_be_prefix))
                idx = calls['n']
                calls['n'] += 1
                if fail_kind and bool(fail_at == idx):
                    if fail_kind == 'nack':
                        raise types.InterestNack(150)
                    raise types.ValidationFailure(n, enc.MetaInfo(), b'', None)
                lost = eng.bool('lost')
                if lost:
                    lost_log.append(idx)
                    raise types.InterestTimeout()
                if len(n) == len(prefix):
                    # discovery: answered by segment k (segmented) or by the object itself
                    if N is None:
                        return [bytes(c) for c in prefix], enc.MetaInfo(), b'whole'
                    if N == 0:
                        raise types.InterestTimeout()
                    # only existing segments can answer
                    if k_disc >= N:
                        eng.assume(False)
                    k = as_int(k_disc)
                    return list(prefix) + [Component.from_segment(k_disc)], enc.MetaInfo(final_block_id=final_id(k)), \
                        b'seg%d' % k
                seg = Component.to_number(n[-1])
                if Component.get_type(n[-1]) != Component.TYPE_SEGMENT or seg >= (N or 0):
                    raise types.InterestTimeout()
                s = as_int(seg)
                return list(n), enc.MetaInfo(final_block_id=final_id(s)), b'seg%d' % s
            return co()

    got = []
    res = {}

    async def main(loop):
        try:
            async for c in segment_fetcher(StubApp(), '/obj', timeout=100, retry_times=retry):
                got.append(bytes(c))
            res['end'] = 'done'
        except types.InterestTimeout:
            res['end'] = 'timeout'
        except types.InterestNack:
            res['end'] = 'nack'
        except types.ValidationFailure:
            res['end'] = 'vfail'
        except Exception as e:
            res['end'] = 'error:' + exc_sig(e)
    loop, r, err = appenv.run(eng, main)
    if err or 'end' not in res:
        eng.fail('fetch-terminates', 'deadlock')
        return
    # ---- reference: replay the same loss / failure decisions against the statement ----
    exp = []
    end = None
    idx = 0
    lostset = set(lost_log)

    def attempt_group(first_idx):
        """returns (n_attempts_used, outcome) for one Interest with retries"""
        i = first_idx
        tries = 0
        while True:
            if fail_kind and bool(fail_at == i):
                return i + 1, fail_kind
            if i in lostset:
                tries += 1
                i += 1
                if tries >= retry:
                    return i, 'timeout'
                continue
            return i + 1, 'ok'
    # discovery
    idx, out = attempt_group(0)
    if out != 'ok':
        end = out
    elif N is None:
        exp.append(b'whole')
        end = 'done'
    elif N == 0:
        end = 'timeout'
    else:
        k = as_int(k_disc)
        nxt = 0
        stop = False
        if k == 0:
            exp.append(b'seg0')
            nxt = 1
            if final_id(0) == bytes(Component.from_segment(0)):
                end = 'done'
                stop = True
        while not stop:
            if nxt >= N:
                # request for a segment that does not exist: every attempt times out
                end = 'timeout'
                break
            idx, out = attempt_group(idx)
            if out != 'ok':
                end = out
                break
            exp.append(b'seg%d' % nxt)
            if final_id(nxt) == bytes(Component.from_segment(nxt)):
                end = 'done'
                break
            nxt += 1
    if res['end'].startswith('error:'):
        eng.fail('no-internal-error', res['end'][6:])
        return
    eng.check(got == exp, 'yielded-sequence', {'got': got, 'expected': exp},
              sig='yielded-%s' % ('prefix-of-expected' if exp[:len(got)] == got else 'differs'))
    if nxt_requests_ok(seen, prefix, retry):
        eng.check(True, 'interests-well-formed')
    else:
        eng.fail('interests-well-formed', 'bad-request-sequence')
    # outcome: when the reference runs out of existing segments the exact number of attempts is not pinned
    eng.check(res['end'] == end, 'final-outcome', {'got': res['end'], 'expected': end}, sig='%s-instead-of-%s' % (res['end'], end))
    eng.observe('got', got)
    eng.observe('end', res['end'])
    eng.reach('end')


def nxt_requests_ok(seen, prefix, retry):
    """first request is the discovery (CanBePrefix), the others are prefix/seg=i with i non-decreasing by steps of
    one, at most `retry` attempts each"""
    from ndn.encoding import Component
    if not seen or not seen[0][1]:
        return False
    i = 0
    while i < len(seen) and len(seen[i][0]) == len(prefix):
        i += 1
    if i > retry:
        return False
    last = None
    cnt = 0
    for n, cbp in seen[i:]:
        if cbp or len(n) != len(prefix) + 1:
            return False
        if Component.get_type(n[-1]) != Component.TYPE_SEGMENT:
            return False
        s = as_int(Component.to_number(n[-1]))
        if last is None or s != last:
            if last is not None and s != last + 1:
                return False
            if last is None and s not in (0, 1):
                return False
            last = s
            cnt = 1
        else:
            cnt += 1
            if cnt > retry:
                return False
    return True


def h_fetch_app(eng, case):
    """the fetcher on the real legacy front-end: a stub forwarder answers each Interest on the face with the segment,
    a Nack (any reason code) or silence; what the application sees must be the reference simulation of that script"""
    import ndn.encoding as enc
    import ndn.types as types
    from ndn.app_support.segment_fetcher import segment_fetcher
    from ndn.encoding import Component, Name
    from .c17 import _wait_send
    N = case['N']
    retry = case['retry']
    app, face = appenv.make_app('v1')
    script = []                      # per request: ('data',) | ('nack', reason) | ('silence',)
    reqs = []

    def lp(frag, nack_reason=None):
        # link-layer envelope as a forwarder with link reliability writes it: Sequence header (type 0x51, which the
        # library does not model: an unknown header to ignore), optional Nack header, Fragment
        from . import modelgen as mg
        body = [0x51, 8] + [0, 0, 0, 0, 0, 0, 0, 7]
        if nack_reason is not None:
            body += [0xFD, 0x03, 0x20, 5, 0xFD, 0x03, 0x21, 1, nack_reason]
        body += mg.w_tlv(0x50, blist(frag))
        return bytes(mg.w_tlv(0x64, body))

    async def deliver_data(d):
        if case.get('lp'):
            await app._receive(0x64, lp(d))
        else:
            await app._receive(6, d)

    async def forwarder():
        seen = 1 if case.get('prefetch') is not None else 0     # the application's own earlier request gets no answer
        while True:
            while seen >= len(face.out):
                await _wait_send(face)
            while seen < len(face.out):
                wire = face.out[seen]
                seen += 1
                n, p, _, _ = enc.parse_interest(wire)
                n = [bytes(c) for c in n]
                sel = eng.choice(3, 'answer')
                if len(n) == 1:
                    seg = 0                                        # discovery is answered by segment 0
                else:
                    seg = Component.to_number(n[-1])
                reqs.append(seg)
                if sel == 0 and N is None:
                    # an unsegmented object published under exactly the requested name
                    script.append(('data',))
                    await deliver_data(bytes(enc.make_data('/obj', enc.MetaInfo(), b'whole')))
                elif sel == 0 and seg < N:
                    script.append(('data',))
                    fb = Component.from_segment(N - 1)
                    # (a versioned object: the segments live one level below the name the application asks for)
                    base = Name.from_str('/obj/v=7') if case.get('versioned') else Name.from_str('/obj')
                    d = enc.make_data(base + [Component.from_segment(seg)],
                                      enc.MetaInfo(final_block_id=fb), b'seg%d' % seg)
                    await deliver_data(bytes(d))
                elif sel == 1:
                    if case.get('lp'):
                        reason = eng.int('reason', 0, 255)
                        script.append(('nack', reason))
                        await app._receive(0x64, lp(wire, as_int(reason)))
                    else:
                        reason = eng.int('reason', 0, 2 ** 64 - 1)
                        script.append(('nack', reason))
                        await app._receive(0x64, enc.make_network_nack(wire, reason))
                else:
                    script.append(('silence',))

    got = []
    res = {}
    validator = None
    vcalls = []
    if case.get('validator'):
        # the caller's validator is a callable OBJECT (a trust-anchor set: empty, hence falsy, rejecting everything)
        class AnchorSet:
            def __len__(self):
                return 0

            async def __call__(self, name, sig):
                vcalls.append(1)
                return False
        validator = AnchorSet()

    async def main(loop):
        ml = asyncio.ensure_future(app.main_loop())
        await asyncio.sleep(0)
        pre = None
        if case.get('prefetch') is not None:
            # the application has asked for one of the segments itself a moment ago (a prefetch that the network lost):
            # an identical Interest is pending while the fetcher requests that segment
            async def prefetch():
                try:
                    await app.express_interest(Name.from_str('/obj') + [Component.from_segment(case['prefetch'])],
                                               can_be_prefix=False, must_be_fresh=True, lifetime=60000)
                except Exception:
                    pass
            pre = asyncio.ensure_future(prefetch())
            await asyncio.sleep(0)
        fw = asyncio.ensure_future(forwarder())
        try:
            async for c in segment_fetcher(app, '/obj', timeout=100, retry_times=retry, validator=validator):
                got.append(bytes(c))
            res['end'] = ('done',)
        except types.InterestTimeout:
            res['end'] = ('timeout',)
        except types.ValidationFailure:
            res['end'] = ('vfail',)
        except types.InterestNack as e:
            res['end'] = ('nack', e.reason)
        except Exception as e:
            res['end'] = ('error', exc_sig(e))
        fw.cancel()
        if pre is not None:
            pre.cancel()
        app.shutdown()
        try:
            await ml
        except Exception:
            pass
    loop, r, err = appenv.run(eng, main, max_steps=20000)
    if err == 'deadlock' or 'end' not in res:
        eng.fail('final-outcome', 'deadlock')
        return
    # reference simulation of the script
    exp_got = []
    exp_end = None
    seg = 0
    tries = 0
    for ans in script:
        if ans[0] == 'data' and validator is not None:
            exp_end = ('vfail',)               # the caller's validator rejects every packet
            break
        if ans[0] == 'data' and N is None:
            exp_got.append(b'whole')
            exp_end = ('done',)
            break
        if ans[0] == 'data':
            exp_got.append(b'seg%d' % seg)
            if seg == N - 1:
                exp_end = ('done',)
                break
            seg += 1
            tries = 0
        elif ans[0] == 'nack':
            exp_end = ('nack', ans[1])
            break
        else:
            tries += 1
            if tries >= retry:
                exp_end = ('timeout',)
                break
    if exp_end is None:
        eng.fail('final-outcome', 'script-ended-before-the-fetch', {'script': repr(script)[:100], 'end': repr(res['end'])})
        return
    end = res['end']
    same = end[0] == exp_end[0]
    if same and end[0] == 'nack':
        same = end[1] == exp_end[1]
    eng.check(same, 'final-outcome', {'got': repr(end), 'expected': repr(exp_end)},
              sig='%s-instead-of-%s' % (end[0], exp_end[0]))
    eng.check(got == exp_got, 'yielded-sequence', {'got': got, 'expected': exp_got})
    if loop.errors:
        exc = loop.errors[0].get('exception')
        eng.fail('no-unhandled-error-in-loop', exc_sig(exc) if exc is not None else '?')
    eng.observe('end', end[0])
    eng.reach('end')


HARNESSES = {'fetch': h_fetch, 'fetch_app': h_fetch_app}


def cases(tier, seed):
    cs = []
    mx = 4 if tier == 'quick' else 6
    for retry in (1, 2, 3):
        cs.append(('fetch', {'N': None, 'retry': retry, 'marker': None}))
        for N in range(0, mx + 1):
            markers = [None, 'last', 'nonseg'] + ([0] if N > 1 else []) + ([N - 2] if N > 2 else []) + \
                (['vary'] if 1 <= N <= 3 and retry <= 2 else [])
            for m in markers:
                if N == 0 and m is not None:
                    continue
                w = 1 + (2 ** min(N, 5)) * retry
                cs.append(('fetch', {'N': N, 'retry': retry, 'marker': m}, {'weight': w}))
                if N in (2, 3) and m == 'last':
                    for fk in ('nack', 'vfail'):
                        cs.append(('fetch', {'N': N, 'retry': retry, 'marker': m, 'fail': fk}, {'weight': w * 3}))
    for N, retry in ((1, 1), (2, 2), (3, 1)) if tier == 'quick' else ((1, 1), (2, 2), (3, 1), (3, 2), (2, 3)):
        cs.append(('fetch_app', {'N': N, 'retry': retry}, {'weight': 3 ** (N + retry), 'split_depth': 3}))
    cs.append(('fetch_app', {'N': 2, 'retry': 1, 'validator': 'rejecting-object'}, {'weight': 9}))
    cs.append(('fetch_app', {'N': None, 'retry': 2}, {'weight': 9}))
    cs.append(('fetch_app', {'N': 3, 'retry': 1, 'versioned': True}, {'weight': 27, 'split_depth': 3}))
    for k in (1, 2):
        cs.append(('fetch_app', {'N': 3, 'retry': 2 if k == 1 else 1, 'prefetch': k}, {'weight': 30, 'split_depth': 3}))
    cs.append(('fetch_app', {'N': 2, 'retry': 1, 'lp': True}, {'weight': 9}))
    return cs
