# C04 -- incoming Interests reach exactly the handler of their longest registered prefix.
# Real code executed symbolically: appv2.attach_handler / detach_handler / _on_interest (incl. the reply closure) /
# _put_raw_packet(_with_pit_token); app.set_interest_filter / unset_interest_filter / _on_interest;
# Dispatcher.register / unregister / dispatch; NameTrie._path_from_key; Name.normalize; parse_interest.
import asyncio
from symex import vloop
from symex.api import And, Or, Not, Implies, Iff, blist, bwrap, beq, exc_sig, as_int, mview, tobytes
from . import env, appenv, ref

PROPERTY = 'C04'
INFO = {
    'explanation': 'C04: histories of attach/detach operations (prefix, key representation and operation kind by '
                   'solver-pruned choice) followed by an incoming Interest; the invoked handler is compared with the '
                   'set semantics of the statement (longest attached prefix).  The reply deadline clause is decided for '
                   'all lifetimes and reply delays: bytes reach the face iff now <= arrival + lifetime and the callback '
                   'returns True exactly in that case.',
    'bounds': {'quick': {'history': '0..3 operations over the prefixes / /a /b /a/a /a/b /a/a/a /b/a in 4 key '
                                    'representations; 4 operations over the chain /a /a/a /a/a/a', 'interest_names': '7 tree names + 3 off-tree extensions',
                         'lifetime_ms': 'absent or [0,2^32)', 'reply_delay_ms': '[0,2^33)', 'clock_offset': '[0,2^40)'},
               'thorough': {'history': '0..4 operations'}},
    'outside': ['prefix names outside the 7-node tree (trie keys are hashed, hence concrete per path)'],
    'assumptions': ['virtual-time loop; utils.timestamp() = offset + loop time in ms'],
}
MANDATORY = {'dispatch_v2': ['longest-prefix'], 'reply': ['reply-deadline']}

PREFIXES = ['/', '/a', '/b', '/a/a', '/a/b', '/a/a/a', '/b/a']
INAMES = PREFIXES + ['/a/a/a/z', '/a/b/z', '/c', '/b/b']


def _repr(enc, uri, k):
    """the same name in representation k: URI string, component list, encoded bytes, memoryview of the encoding"""
    if k == 0:
        return uri
    comps = enc.Name.from_str(uri)
    if k == 1:
        return [bytes(c) for c in comps]
    wire = bytes(enc.Name.encode(comps))
    if k == 2:
        return wire
    if k == 3:
        return memoryview(wire)
    # a WRITABLE buffer of the caller (re-used for something else right after the call): the encoded name in a
    # bytearray, or components that are memoryviews into one
    ba = bytearray(wire)
    SCRATCH.append(ba)
    if k == 4:
        return ba
    return enc.Name.from_bytes(memoryview(ba))


SCRATCH = []


def _scribble():
    """the caller re-uses its buffers"""
    for ba in SCRATCH:
        for i in range(len(ba)):
            ba[i] = 0x5A
    del SCRATCH[:]


def _is_prefix(p, n):
    pc = [c for c in p.split('/') if c]
    nc = [c for c in n.split('/') if c]
    return len(pc) <= len(nc) and nc[:len(pc)] == pc


def _dispatch(eng, case, front):
    import ndn.encoding as enc
    import ndn.types as types
    nops = case['ops']
    calls = []
    model = {}            # prefix -> handler id

    async def pass_v2(name, sig, ctx):
        return types.ValidResult.PASS
    if front == 'disp':
        from ndn.app_support.dispatcher import Dispatcher
        target = Dispatcher()
    else:
        app, face = appenv.make_app(front)
        target = app

    del SCRATCH[:]

    def mk(hid):
        if front == 'v2':
            return lambda name, ap, reply, ctx: calls.append((hid, name))
        return lambda name, param, ap: calls.append((hid, name))

    traffic = bool(case.get('traffic')) and front != 'disp'
    if traffic:
        # the Interest that is asked about at the end also arrives after every operation of the history (handlers
        # see traffic between attach / detach operations): each delivery goes by the table as it is at that moment
        im0 = case.get('inames') or INAMES
        t_iname = im0[eng.choice(len(im0), 'iname')]
        t_wire = bytes(enc.make_interest(t_iname, enc.InterestParam(nonce=4)))

        def probe(step):
            del calls[:]

            async def pmain(loop):
                try:
                    await app._receive(5, t_wire)
                except Exception as e:
                    eng.fail('receive-returns', exc_sig(e))
                for _ in range(4):
                    await asyncio.sleep(0)
            appenv.run(eng, pmain)
            exp_ = None
            for p_, hid_ in model.items():
                if _is_prefix(p_, t_iname) and (exp_ is None or len(p_) > len(exp_[0])):
                    exp_ = (p_, hid_)
            got_ = [c[0] for c in calls]
            eng.check(got_ == ([] if exp_ is None else [exp_[1]]), 'longest-prefix',
                      {'after_operation': step, 'calls': got_, 'expected': exp_, 'name': t_iname},
                      sig='traffic-between-operations:' + ('wrong-handler' if got_ else 'no-handler'))
            del calls[:]
        probe(-1)
    for j in range(nops):
        op = eng.choice(2, 'op')
        pm = case.get('prefixes') or PREFIXES
        p = pm[eng.choice(len(pm), 'prefix')]
        key = _repr(enc, p, eng.choice(4, 'repr') if case.get('reprs') is None else case['reprs'][j])
        before = dict(model)
        hj = mk(j)
        if op == 0 and case.get('marked') and eng.choice(2, 'marked-handler'):
            # a handler that an implementation may legitimately refuse (it looks like a coroutine function to asyncio,
            # although calling it runs synchronously): accepted or refused, but a refusal must leave no trace
            import asyncio.coroutines as _ac
            hj._is_coroutine = _ac._is_coroutine
            marked = True
        else:
            marked = False
        try:
            if op == 0:
                if front == 'v2' and case.get('route') and eng.choice(2, 'via-route'):
                    # the decorator form of attaching (before connecting: no registration command is due)
                    face.running = False
                    try:
                        target.route(key, pass_v2)(hj)
                    finally:
                        face.running = True
                elif front == 'v2':
                    target.attach_handler(key, hj, pass_v2)
                elif front == 'v1':
                    target.set_interest_filter(key, hj)
                else:
                    target.register(key, hj)
                if p in model:
                    eng.fail('second-attach-refused', 'attach-on-occupied-prefix-accepted', {'prefix': p})
                model[p] = j
            else:
                if front == 'v2':
                    target.detach_handler(key)
                elif front == 'v1':
                    target.unset_interest_filter(key)
                else:
                    target.unregister(key)
                model.pop(p, None)
        except TypeError as e:
            if not (op == 0 and marked):
                eng.fail('attach-detach-no-error', exc_sig(e), {'op': op, 'prefix': p})
            # refused because of the kind of handler: nothing is attached
        except ValueError as e:
            if op != 0 or (p not in before and not marked):
                eng.fail('attach-detach-no-error', exc_sig(e), {'op': op, 'prefix': p})
        except KeyError as e:
            if op != 1 or p in before:
                eng.fail('attach-detach-no-error', exc_sig(e), {'op': op, 'prefix': p})
        except Exception as e:
            eng.fail('attach-detach-no-error', exc_sig(e), {'op': op, 'prefix': p})
        _scribble()
        if traffic and j < nops - 1:
            probe(j)
    im = case.get('inames') or INAMES
    iname = t_iname if traffic else im[eng.choice(len(im), 'iname')]
    wire = bytes(enc.make_interest(iname, enc.InterestParam(nonce=4)))
    exp = None
    for p, hid in model.items():
        if _is_prefix(p, iname) and (exp is None or len(p) > len(exp[0])):
            exp = (p, hid)

    if front == 'disp':
        n, param, ap, sig = enc.parse_interest(wire)
        try:
            r = target.dispatch(n, param, ap)
        except Exception as e:
            eng.fail('dispatch-no-error', exc_sig(e))
            return
        eng.check(r == (exp is not None), 'longest-prefix', {'returned': r})
    else:
        async def main(loop):
            try:
                await app._receive(5, wire)
            except Exception as e:
                eng.fail('receive-returns', exc_sig(e))
            for _ in range(4):
                await asyncio.sleep(0)
        loop, r, err = appenv.run(eng, main)
        if loop is not None and loop.errors:
            exc = loop.errors[0].get('exception')
            eng.fail('no-unhandled-error-in-loop', exc_sig(exc) if exc is not None else '?')
    if exp is None:
        eng.check(len(calls) == 0, 'longest-prefix', {'calls': [c[0] for c in calls], 'model': model, 'name': iname},
                  sig='handler-invoked-without-matching-prefix')
    else:
        ok = len(calls) == 1 and calls[0][0] == exp[1]
        eng.check(ok, 'longest-prefix', {'calls': [c[0] for c in calls], 'expected': exp, 'name': iname},
                  sig='wrong-handler' if calls else 'no-handler')
        if ok:
            eng.check(enc.Name.to_str(calls[0][1]) == iname, 'handler-gets-interest-name')
    eng.observe('calls', [c[0] for c in calls])
    eng.reach('end')


def h_dispatch_v2(eng, case):
    _dispatch(eng, case, 'v2')


def h_dispatch_v1(eng, case):
    _dispatch(eng, case, 'v1')


def h_dispatch_disp(eng, case):
    _dispatch(eng, case, 'disp')


def h_reply(eng, case):
    """reply() sends iff the Interest's lifetime has not elapsed, and says so"""
    import ndn.encoding as enc
    import ndn.types as types
    from ndn.encoding import ndnlp_v2 as lp
    app, face = appenv.make_app('v2')
    t0 = eng.int('t0', 0, 2 ** 40)
    has_life = eng.choice(2, 'lifetime?')
    life = eng.int('lifetime', 0, 2 ** 32 - 1) if has_life else None
    delay = eng.int('delay', 0, 2 ** 33)
    token = [None, b'\x01\x02\x03\x04'][eng.choice(2, 'token?')]
    down = eng.choice(2, 'face-down?')
    # the event loop may be busy (a handler that computes, another task) between the arrival of the Interest and the
    # moment anything scheduled for it runs: that time counts against the lifetime like any other
    busy = eng.int('busy', 0, 2 ** 33) if case.get('busy') else 0
    saved = {}

    async def pass_v2(name, sig, ctx):
        return types.ValidResult.PASS

    def handler(name, ap, reply, ctx):
        saved['reply'] = reply
        saved['ctx'] = ctx
    app.attach_handler('/p', handler, pass_v2)
    iw = tobytes(enc.make_interest('/p/q', enc.InterestParam(nonce=4, lifetime=life)))
    if token is not None:
        pk = lp.LpPacket()
        pk.lp_packet = lp.LpPacketValue()
        pk.lp_packet.pit_token = token
        pk.lp_packet.fragment = iw
        wire, typ = tobytes(pk.encode()), 0x64
    else:
        wire, typ = iw, 5
    data = bytes(enc.make_data('/p/q', enc.MetaInfo(), b'r'))
    out = {}

    async def main(loop):
        await app._receive(typ, wire)
        if case.get('busy'):
            loop._now = loop._now + loop.at_ms(busy)        # time passes without the loop running anything
        for _ in range(3):
            await asyncio.sleep(0)
        await vloop.sleep_until(loop, loop.at_ms(delay))
        if 'reply' in saved:
            n0 = len(face.out)
            if down:
                face.running = False            # the connection to the forwarder is gone
                face.send = lambda data: None   # ... and whatever is handed to it now goes nowhere
            try:
                out['ret'] = saved['reply'](data)
            except Exception as e:
                if down:
                    out['ret'] = ('raised', exc_sig(e))      # an error is a truthful report of "not sent"
                else:
                    eng.fail('reply-no-error', exc_sig(e))
            out['sent'] = face.out[n0:]
    loop, r, err = appenv.run(eng, main, t0=t0)
    if 'reply' not in saved:
        eng.fail('longest-prefix', 'no-handler')
        return
    eff = life if life is not None else 4000
    in_time = And(delay <= eff, busy <= eff)
    sent = out.get('sent', [])
    if down:
        # nothing can be transmitted: the callback must not claim success (False or an error are both truthful)
        eng.check(out.get('ret') is not True, 'reply-reports-truthfully', {'ret': repr(out.get('ret'))},
                  sig='returned-True-with-the-face-down')
    elif bool(in_time):
        eng.check(len(sent) == 1, 'reply-deadline', {'sent': len(sent)}, sig='in-time-reply-not-sent')
        eng.check(out.get('ret') is True, 'reply-reports-truthfully', {'ret': repr(out.get('ret'))},
                  sig='returned-%r-after-sending' % (out.get('ret'),))
        if len(sent) == 1:
            if token is None:
                eng.check(beq(sent[0], data), 'reply-bytes')
            else:
                try:
                    v = ref.parse_lp(blist(sent[0]))
                    eng.check(And(beq(v.get('pit_token'), token), beq(v.get('fragment'), data)), 'reply-bytes')
                except ref.RefReject as e:
                    eng.fail('reply-bytes', 'ref-reject:' + e.args[0])
    else:
        eng.check(len(sent) == 0, 'reply-deadline', {'sent': len(sent)}, sig='late-reply-sent')
        eng.check(out.get('ret') is False, 'reply-reports-truthfully', {'ret': repr(out.get('ret'))},
                  sig='returned-%r-without-sending' % (out.get('ret'),))
    eng.observe('sent', len(sent))
    eng.reach('end')


def h_swap(eng, case):
    """the handler table changes while the validator of a parameterised / signed Interest is suspended (a longer prefix
    is attached, the matched prefix is detached and attached again, or detached while a shorter one stays, an unrelated
    prefix is attached).  An attached prefix matches the name at every moment, so the Interest must reach exactly one
    handler: the one that matched on arrival or the one that matches when the validator returns"""
    import ndn.encoding as enc
    import ndn.types as types
    env.symbolic_env(eng)
    app, face = appenv.make_app('v2')
    calls = []

    def mk_handler(tag):
        def handler(name, app_param, reply, context):
            calls.append(tag)
        return handler

    def mk_validator(slow):
        async def validator(name, sig, ctx):
            if slow:
                await asyncio.sleep(0.010)
            return types.ValidResult.PASS
        return validator
    reps = [lambda s: s, lambda s: enc.Name.from_str(s), lambda s: enc.Name.to_bytes(s)]
    rep = reps[eng.choice(3, 'repr')]
    app.attach_handler('/', mk_handler('root'), mk_validator(False))
    app.attach_handler(rep('/p'), mk_handler('p'), mk_validator(True))
    signer = env.make_signer(eng, 'hmac', for_interest=True) if eng.choice(2, 'signed?') else None
    wire = bytes(enc.make_interest('/p/x/y', enc.InterestParam(nonce=5, lifetime=4000), b'a', signer))
    op = ['none', 'attach-longer', 'reattach', 'detach', 'attach-unrelated'][eng.choice(5, 'table-op')]

    async def main(loop):
        await app._receive(5, wire)
        await asyncio.sleep(0.002)                  # the validator of /p is suspended now
        if op == 'attach-longer':
            app.attach_handler(rep('/p/x'), mk_handler('px'), mk_validator(False))
        elif op == 'reattach':
            app.detach_handler(rep('/p'))
            app.attach_handler(rep('/p'), mk_handler('p2'), mk_validator(False))
        elif op == 'detach':
            app.detach_handler(rep('/p'))
        elif op == 'attach-unrelated':
            app.attach_handler(rep('/q'), mk_handler('q'), mk_validator(False))
        await asyncio.sleep(0.050)
    loop, r, err = appenv.run(eng, main)
    if err == 'deadlock':
        eng.fail('longest-prefix', 'deadlock')
        return
    if loop.errors:
        exc = loop.errors[0].get('exception')
        eng.fail('no-unhandled-error-in-loop', exc_sig(exc) if exc is not None else str(loop.errors[0].get('message')))
        return
    admissible = {'none': ['p'], 'attach-longer': ['p', 'px'], 'reattach': ['p', 'p2'], 'detach': ['p', 'root'],
                  'attach-unrelated': ['p']}[op]
    eng.check(len(calls) == 1 and calls[0] in admissible, 'longest-prefix',
              {'calls': list(calls), 'admissible': admissible, 'table_op': op},
              sig='table-changed-during-validation:' + ('no-handler' if not calls else 'wrong-or-several-handlers'))
    eng.observe('calls', list(calls))
    eng.reach('end')


HARNESSES = {'swap': h_swap, 'dispatch_v2': h_dispatch_v2, 'dispatch_v1': h_dispatch_v1, 'dispatch_disp': h_dispatch_disp,
             'reply': h_reply}


def cases(tier, seed):
    cs = []
    quick = tier == 'quick'
    sub = ['/', '/a', '/a/a', '/a/a/a', '/a/b']
    for h in ('dispatch_v2', 'dispatch_v1', 'dispatch_disp'):
        for n in (0, 1, 2):
            cs.append((h, {'ops': n}, {'weight': 1 + 60 ** n // 30, 'split_depth': 3 if n >= 2 else None}))
        # handlers an implementation may refuse: a refused attach leaves nothing behind
        cs.append((h, {'ops': 2, 'marked': True, 'reprs': [0, 1], 'prefixes': ['/a', '/a/a'],
                       'inames': ['/a', '/a/a', '/a/a/z', '/b']}, {'weight': 20}))
        cs.append((h, {'ops': 3, 'marked': True, 'reprs': [0, 1, 2], 'prefixes': ['/a', '/a/a'], 'inames': ['/a/a/z', '/a']},
                   {'weight': 60, 'split_depth': 4}))
        # prefixes handed over in writable buffers that the caller overwrites afterwards
        cs.append((h, {'ops': 2, 'reprs': [4, 5], 'prefixes': ['/a', '/a/a', '/b']}, {'weight': 20}))
        cs.append((h, {'ops': 3, 'reprs': [5, 4, 4], 'prefixes': ['/a', '/a/a'], 'inames': ['/a', '/a/a', '/a/a/z', '/b']},
                   {'weight': 60, 'split_depth': 4}))
        if h != 'dispatch_disp':
            cs.append((h, {'ops': 2, 'traffic': True, 'reprs': [0, 2], 'prefixes': ['/a', '/a/a', '/'],
                           'inames': ['/a', '/a/a', '/a/a/z', '/b']}, {'weight': 30}))
            cs.append((h, {'ops': 3, 'traffic': True, 'reprs': [1, 0, 3], 'prefixes': ['/a', '/a/a'],
                           'inames': ['/a/a/z', '/a']}, {'weight': 60, 'split_depth': 4}))
        if h == 'dispatch_v2':
            # attach through the route() decorator or through attach_handler, by choice, on a small tree
            cs.append((h, {'ops': 2, 'route': True, 'prefixes': ['/a', '/a/a'], 'inames': ['/a', '/a/a', '/a/a/z', '/b']},
                       {'weight': 20}))
            cs.append((h, {'ops': 3, 'route': True, 'reprs': [0, 2, 1], 'prefixes': ['/a', '/a/a'],
                           'inames': ['/a', '/a/a/z']}, {'weight': 60, 'split_depth': 4}))
        # three / four operations: key representation fixed per position (all four occur), 5-prefix subtree
        for reprs in ([0, 1, 2], [3, 2, 0], [1, 3, 3]):
            if quick and h != 'dispatch_v2' and reprs != [0, 1, 2]:
                continue
            cs.append((h, {'ops': 3, 'reprs': reprs, 'prefixes': sub}, {'weight': 300, 'split_depth': 4}))
        # four operations on one chain of nested prefixes (a detached prefix between two attached ones needs 4)
        cs.append((h, {'ops': 4, 'reprs': [0, 1, 2, 3], 'prefixes': ['/a', '/a/a', '/a/a/a'],
                       'inames': ['/a', '/a/a', '/a/a/a', '/a/a/z', '/a/a/a/z', '/c']}, {'weight': 300, 'split_depth': 4}))
        if not quick:
            cs.append((h, {'ops': 4, 'reprs': [0, 3, 1, 2], 'prefixes': sub[1:]}, {'weight': 2000, 'split_depth': 5}))
    cs.append(('reply', {}))
    cs.append(('swap', {}, {'weight': 5}))
    cs.append(('reply', {'busy': True}))
    return cs
