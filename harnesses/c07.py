# C07 -- packet decoders accept exactly the well-formed packets.
# Real code executed symbolically: parse_interest, parse_data, parse_lp_packet_v2, parse_certificate,
# Name.from_bytes / Name.decode, TlvModel.parse, parse_and_check_tl, parse_tl_num, every Field.parse_from reached.
import struct as _struct
from symex.api import And, Or, Not, Implies, Iff, blist, bwrap, beq, exc_sig, as_int, bcat
from symex.core import SInt
from . import ref, env

PROPERTY = 'C07'
INFO = {
    'explanation': 'C07: differential check of the real decoders against an independent strict decoder on (a) fully '
                   'symbolic buffers and (b) valid packets in which one type/length number, at every position and in every '
                   'encoding form, is a solver variable, or one element is inserted/duplicated/removed/swapped.',
    'bounds': {'quick': {'fully_symbolic_buffer_bytes': '0..7 (Name 0..8)', 'templates': 'one symbolic TL number '
                         '(1/3/5/9-byte form) at every TL position of 9 valid packets; one TLV-level edit at every boundary'},
               'thorough': {'fully_symbolic_buffer_bytes': '0..10 (Name 0..12)'}},
    'outside': ['buffers longer than the bound with more than one symbolic number', 'two simultaneous edits'],
    'assumptions': ['criticality = odd type number (as documented in DecodeError); the reference does not demand '
                    'shortest-form numbers', 'struct/bytes/memoryview shims validated by native replay'],
}
MANDATORY = {'sym_data': ['accepts-only-wellformed'], 'tmpl': ['accepts-only-wellformed'],
             'long': ['accepts-only-wellformed', 'fields-content']}

ALLOWED = ('DecodeError', 'IndexError', 'ValueError', 'UnicodeDecodeError', 'error', 'TypeError')


def _enc():
    import ndn.encoding as enc
    return enc


_COUNT = {'n': 0}
_counting = False


def _install_counter():
    """count parse_tl_num calls (termination / linear-time clause)"""
    global _counting
    if _counting:
        return
    _counting = True
    import sys
    import ndn.encoding.tlv_var as tv
    orig = tv.parse_tl_num

    def counted(buf, offset=0):
        _COUNT['n'] += 1
        return orig(buf, offset)
    for name, mod in list(sys.modules.items()):
        if mod is not None and (name == 'ndn' or name.startswith('ndn.')):
            for k, v in list(mod.__dict__.items()):
                if v is orig:
                    mod.__dict__[k] = counted


def _sig_info_eq(eng, si, rsi, label):
    """compare a parsed SignatureInfo model with the reference dict"""
    if rsi is None:
        eng.check(si is None, label)
        return
    eng.check(si is not None, label)
    if si is None:
        return
    for fld in ('signature_type', 'signature_nonce', 'signature_time', 'signature_seq_num'):
        got = getattr(si, fld)
        if fld in rsi:
            eng.check(got is not None and got == rsi[fld], label)
        else:
            eng.check(got is None, label)
    kl = si.key_locator
    rkl = rsi.get('key_locator')
    if rkl is None:
        eng.check(kl is None, label)
    else:
        eng.check(kl is not None, label)
        if kl is not None:
            if 'name' in rkl:
                eng.check(kl.name is not None and env.names_equal(kl.name, rkl['name']), label)
            else:
                eng.check(kl.name is None, label)
            eng.check(beq(kl.key_digest, rkl.get('key_digest')), label)


def _run(eng, kind, buf):
    """run decoder `kind` and the reference on buf; assert the C07 relation"""
    enc = _enc()
    _install_counter()
    w = blist(buf)
    _COUNT['n'] = 0
    acc = None
    try:
        if kind == 'data':
            acc = enc.parse_data(buf)
        elif kind == 'interest':
            acc = enc.parse_interest(buf)
        elif kind == 'lp':
            acc = enc.parse_lp_packet_v2(buf)
        elif kind == 'cert':
            from ndn.app_support.security_v2 import parse_certificate
            acc = parse_certificate(buf)
        elif kind == 'name':
            acc = enc.Name.from_bytes(buf)
    except Exception as e:
        nm = type(e).__name__
        ok = any(c.__name__ in ALLOWED for c in type(e).__mro__)
        if not ok:
            eng.fail('documented-error-class', exc_sig(e), repr(e)[:160])
        acc = None
        rejected = nm
    calls = _COUNT['n']
    eng.check(calls <= 2 * len(w) + 4, 'linear-time')
    try:
        if kind == 'data':
            rv = ref.parse_data(w)
        elif kind == 'interest':
            rv = ref.parse_interest(w)
        elif kind == 'lp':
            rv = ref.parse_lp(w)
        elif kind == 'cert':
            rv = ref.parse_cert(w)
        else:
            rv = ref.parse_name(w)
        rrej = None
    except ref.RefReject as r:
        rv = None
        rrej = r.args[0]
    eng.observe('impl_accepts', acc is not None)
    eng.observe('ref_accepts', rv is not None)
    if acc is None:
        if rv is not None:
            eng.reach('ref-accepts-impl-rejects')       # reported, does not decide (statement says "only if")
        eng.reach('rejected')
        return
    if rv is None:
        eng.fail('accepts-only-wellformed', 'accepts:' + rrej, {'kind': kind, 'reason': rrej})
        return
    eng.check(True, 'accepts-only-wellformed')
    # field equality
    if kind == 'name':
        comps, used = rv
        eng.check(env.names_equal(acc, comps), 'fields-name')
        return
    if kind in ('data', 'cert'):
        if kind == 'data':
            name, meta, content, sig = acc
            si = sig.signature_info
            sv = sig.signature_value_buf
            cov = sig.signature_covered_part
        else:
            name, meta, content, si, sv = acc.name, acc.meta_info, acc.content, acc.signature_info, acc.signature_value
            cov = None
        eng.check(not isinstance(name, str) and env.names_equal(name, rv['name']), 'fields-name')
        rm = rv.get('meta_info')
        if rm is None:
            if kind == 'data':
                eng.check(And(meta.content_type == 0, meta.freshness_period is None, meta.final_block_id is None),
                          'fields-meta')
            else:
                eng.check(meta is None, 'fields-meta')
        else:
            for fld in ('content_type', 'freshness_period'):
                got = getattr(meta, fld)
                if fld in rm:
                    eng.check(got is not None and got == rm[fld], 'fields-meta')
                else:
                    eng.check(got is None, 'fields-meta')
            eng.check(beq(meta.final_block_id, rm.get('final_block_id')), 'fields-meta')
        eng.check(beq(content, rv.get('content')), 'fields-content')
        _sig_info_eq(eng, si, rv.get('signature_info'), 'fields-siginfo')
        eng.check(beq(sv, rv.get('signature_value')), 'fields-sigvalue')
        if kind == 'cert' and rv.get('signature_info') is not None and si is not None:
            rvp = rv['signature_info'].get('validity_period')
            vp = si.validity_period
            if rvp is None:
                eng.check(vp is None, 'fields-validity')
            else:
                eng.check(vp is not None and beq(vp.not_before, rvp.get('not_before'))
                          and beq(vp.not_after, rvp.get('not_after')), 'fields-validity')
        if cov is not None and 'sigvalue' in rv['#region'] and 'name_start' in rv['#region']:
            a = rv['#region']['name_start']
            b = rv['#region']['sigvalue'][0]
            if b >= a:
                eng.check(beq(bcat(*cov) if cov else b'', w[a:b]), 'fields-covered')
    elif kind == 'interest':
        name, param, app, sig = acc
        eng.check(not isinstance(name, str) and env.names_equal(name, rv['name']), 'fields-name')
        eng.check(Iff(param.can_be_prefix, 'can_be_prefix' in rv), 'fields-param')
        eng.check(Iff(param.must_be_fresh, 'must_be_fresh' in rv), 'fields-param')
        for fld, got in (('nonce', param.nonce), ('lifetime', param.lifetime), ('hop_limit', param.hop_limit)):
            if fld in rv:
                eng.check(got is not None and got == rv[fld], 'fields-param')
            else:
                eng.check(got is None, 'fields-param')
        rh = (rv.get('forwarding_hint') or {}).get('names', [])
        eng.check(len(param.forwarding_hint) == len(rh), 'fields-hint')
        if len(param.forwarding_hint) == len(rh):
            for x, y in zip(param.forwarding_hint, rh):
                eng.check(env.names_equal(x, y), 'fields-hint')
        eng.check(beq(app, rv.get('application_parameters')), 'fields-app')
        _sig_info_eq(eng, sig.signature_info, rv.get('signature_info'), 'fields-siginfo')
        eng.check(beq(sig.signature_value_buf, rv.get('signature_value')), 'fields-sigvalue')
        # the digest component may stand anywhere in the name: its value, the digest range and the signed portion
        digs = [c for c in rv['name'] if len(c) >= 2 and c[0] == 2]
        if len(digs) == 1 and len(digs[0]) == 34:
            eng.check(beq(sig.digest_value_buf, digs[0][2:]), 'fields-covered', sig='digest-value')
        ps = rv['#region'].get('params_start')
        if ps is not None:
            eng.check(beq(bcat(*sig.digest_covered_part) if sig.digest_covered_part else b'', w[ps:rv['#outer'].ve]),
                      'fields-covered', sig='digest-range')
            if 'sigvalue' in rv['#region'] and len(digs) <= 1:
                exp = []
                for c in rv['name']:
                    if not (len(c) >= 1 and c[0] == 2):
                        exp += list(c)
                exp += w[ps:rv['#region']['sigvalue'][0]]
                eng.check(beq(bcat(*sig.signature_covered_part) if sig.signature_covered_part else b'', exp),
                          'fields-covered', sig='signed-portion')
    elif kind == 'lp':
        for fld in ('incoming_face_id', 'next_hop_face_id', 'congestion_mark'):
            got = getattr(acc, fld)
            if fld in rv:
                eng.check(got is not None and got == rv[fld], 'fields-lp')
            else:
                eng.check(got is None, 'fields-lp')
        for fld in ('pit_token', 'fragment', 'tx_sequence', 'ack', 'prefix_announcement'):
            eng.check(beq(getattr(acc, fld), rv.get(fld)), 'fields-lp')
        if 'nack' in rv:
            eng.check(acc.nack is not None, 'fields-lp')
            if acc.nack is not None:
                if 'nack_reason' in rv['nack']:
                    eng.check(acc.nack.nack_reason is not None and acc.nack.nack_reason == rv['nack']['nack_reason'],
                              'fields-lp')
                else:
                    eng.check(acc.nack.nack_reason is None, 'fields-lp')
        else:
            eng.check(acc.nack is None, 'fields-lp')
    eng.reach('accepted')


OUTER = {'data': 6, 'interest': 5, 'lp': 0x64, 'cert': 6, 'name': 7}


def h_sym(eng, case):
    """fully symbolic buffer of the given length"""
    kind, n = case['kind'], case['n']
    buf = eng.bytes('buf', n)
    if case.get('typed') and n > 0:
        eng.assume(buf[0] == OUTER[kind])
    elif n > 0 and case.get('typed') is False:
        eng.assume(buf[0] != OUTER[kind])
    _run(eng, kind, buf)


# ---------------------------------------------------------------------------------------------
# templates
# ---------------------------------------------------------------------------------------------
def _tlv(t, v):
    def num(x):
        if x <= 0xFC:
            return bytes([x])
        if x <= 0xFFFF:
            return b'\xfd' + x.to_bytes(2, 'big')
        return b'\xfe' + x.to_bytes(4, 'big')
    return num(t) + num(len(v)) + bytes(v)


def templates():
    """valid packets built by hand (not by the library's encoder)"""
    name = _tlv(7, _tlv(8, b'ab') + _tlv(8, b'c'))
    name2 = _tlv(7, _tlv(8, b'k') + _tlv(8, b'KEY') + _tlv(8, b'\x01'))
    meta = _tlv(0x14, _tlv(0x18, b'\x00') + _tlv(0x19, b'\x03\xe8') + _tlv(0x1a, _tlv(0x32, b'\x02')))
    siginfo = _tlv(0x16, _tlv(0x1b, b'\x03') + _tlv(0x1c, name2))
    sigval = _tlv(0x17, bytes(range(8)))
    T = {}
    T['data_full'] = ('data', _tlv(6, name + meta + _tlv(0x15, b'hello') + siginfo + sigval))
    T['data_min'] = ('data', _tlv(6, name))
    T['data_long'] = ('data', _tlv(6, name + _tlv(0x15, bytes(260)) + _tlv(0x16, _tlv(0x1b, b'\x00')) + _tlv(0x17, bytes(32))))
    isiginfo = _tlv(0x2c, _tlv(0x1b, b'\x04') + _tlv(0x1c, name2) + _tlv(0x26, b'\x01\x02\x03\x04') + _tlv(0x28, b'\x00' * 8))
    dname = _tlv(7, _tlv(8, b'ab') + _tlv(2, bytes(32)))
    T['int_plain'] = ('interest', _tlv(5, name + _tlv(0x21, b'') + _tlv(0x12, b'') + _tlv(0x0a, b'\x01\x02\x03\x04') +
                                  _tlv(0x0c, b'\x0f\xa0') + _tlv(0x22, b'\x05')))
    T['int_signed'] = ('interest', _tlv(5, dname + _tlv(0x1e, name + name2) + _tlv(0x0a, b'\x00' * 4) + _tlv(0x24, b'xyz') +
                                   isiginfo + _tlv(0x2e, bytes(range(6)))))
    dmid = _tlv(7, _tlv(8, b'ab') + _tlv(2, bytes(range(32))) + _tlv(8, b'c'))
    dfirst = _tlv(7, _tlv(2, bytes(range(1, 33))) + _tlv(8, b'ab'))
    T['int_signed_mid'] = ('interest', _tlv(5, dmid + _tlv(0x0a, b'\x00' * 4) + _tlv(0x24, b'xyz') + isiginfo +
                                       _tlv(0x2e, bytes(range(6)))))
    T['int_params_first'] = ('interest', _tlv(5, dfirst + _tlv(0x0a, b'\x00' * 4) + _tlv(0x24, b'')))
    T['lp_nack'] = ('lp', _tlv(0x64, _tlv(0x62, b'\x01\x02\x03\x04') + _tlv(0x0320, _tlv(0x0321, b'\x96')) +
                               _tlv(0x0340, b'\x01') + _tlv(0x50, T['int_plain'][1])))
    T['lp_data'] = ('lp', _tlv(0x64, _tlv(0x032C, b'\x01\x00') + _tlv(0x50, T['data_min'][1])))
    vp = _tlv(0xFD, _tlv(0xFE, b'20200101T000000') + _tlv(0xFF, b'20300101T000000'))
    csig = _tlv(0x16, _tlv(0x1b, b'\x03') + _tlv(0x1c, name2) + vp)
    cname = _tlv(7, _tlv(8, b'k') + _tlv(8, b'KEY') + _tlv(8, b'\x01') + _tlv(8, b'self') + _tlv(0x36, b'\x01'))
    T['cert'] = ('cert', _tlv(6, cname + _tlv(0x14, _tlv(0x18, b'\x02') + _tlv(0x19, b'\x36\xee\x80')) + _tlv(0x15, b'PUBKEY') +
                         csig + _tlv(0x17, bytes(range(10)))))
    T['name'] = ('name', name2)
    return T


def tl_positions(b, start, end, depth, containers):
    """(offset, size, 'T'|'L') of every type/length number, descending into known containers"""
    out = []
    off = start
    while off < end:
        t, ts, _ = ref.rd_num(list(b), off, end)
        l, ls, _ = ref.rd_num(list(b), off + ts, end)
        out.append((off, ts, 'T'))
        out.append((off + ts, ls, 'L'))
        vs = off + ts + ls
        if t in containers and depth < 4:
            out.extend(tl_positions(b, vs, vs + l, depth + 1, containers))
        off = vs + l
    return out


CONTAINER_TYPES = {5, 6, 7, 0x14, 0x16, 0x1c, 0x1e, 0x2c, 0x64, 0x0320, 0x50, 0xFD, 0x1a}
FORMS = {1: (0, 0xFC), 3: (0, 0xFFFF), 5: (0, 0xFFFFFFFF), 9: (0, 2 ** 64 - 1)}


def h_tmpl(eng, case):
    """valid packet with ONE type or length number replaced by a solver variable in a given form"""
    kind, w = templates()[case['tmpl']]
    pos = tl_positions(w, 0, len(w), 0, CONTAINER_TYPES)
    off, size, which = pos[case['pos']]
    form = case['form']
    lo, hi = FORMS[form]
    v = eng.int('num', lo, hi)
    if form == 1:
        nb = [v]
    else:
        from symex.core import pack_uint
        nb = [{3: 0xFD, 5: 0xFE, 9: 0xFF}[form]] + (pack_uint(v, form - 1) if isinstance(v, SInt)
                                                   else list(int(v).to_bytes(form - 1, 'big')))
    buf = bwrap(list(w[:off]) + nb + list(w[off + size:]))
    _run(eng, kind, buf)


def _elements(b, start, end, depth, containers):
    """boundaries (offsets between sibling elements) with their parent chain, for TLV-level edits"""
    out = []
    off = start
    sibs = []
    while off < end:
        t, ts, _ = ref.rd_num(list(b), off, end)
        l, ls, _ = ref.rd_num(list(b), off + ts, end)
        vs = off + ts + l * 0 + ls
        sibs.append((off, vs + l))
        if t in containers and depth < 3:
            out.extend(_elements(b, vs, vs + l, depth + 1, containers))
        off = vs + l
    out.append((start, end, sibs))
    return out


def _fix_lengths(w, at, delta):
    """re-encode the lengths of all elements enclosing offset `at` after the value grew by delta bytes
    (only 1-byte and 3-byte length forms that stay in their form are supported; else None)"""
    b = bytearray(w)
    # find the chain of enclosing elements
    def chain(start, end, acc):
        off = start
        while off < end:
            t, ts, _ = ref.rd_num(list(b), off, end)
            l, ls, _ = ref.rd_num(list(b), off + ts, end)
            vs = off + ts + ls
            if vs <= at <= vs + l and t in CONTAINER_TYPES:
                acc.append((off + ts, ls, l))
                chain(vs, vs + l, acc)
                return
            off = vs + l
    acc = []
    chain(0, len(b), acc)
    return acc


def h_edit(eng, case):
    """one TLV-level edit of a valid packet: insert an element with symbolic type and 0..2 symbolic value bytes,
    duplicate / remove / swap sibling elements; enclosing lengths are re-encoded so that nesting stays exact"""
    kind, w = templates()[case['tmpl']]
    groups = _elements(w, 0, len(w), 0, CONTAINER_TYPES)
    start, end, sibs = groups[case['group']]
    op = case['op']
    k = case['k']
    if op == 'insert':
        at = sibs[k][0] if k < len(sibs) else end
        form = case['form']
        typ = eng.int('ityp', 0, 0xFC) if form == 1 else eng.int('ityp', 0xFD, 0xFFFF)
        val = eng.bytes('ival', case['vlen'])
        new = env.num_bytes(typ, form) + [case['vlen']] + blist(val)
        body = list(w[start:at]) + new + list(w[at:end])
    elif op == 'dup':
        a, b_ = sibs[k]
        body = list(w[start:b_]) + list(w[a:b_]) + list(w[b_:end])
    elif op == 'remove':
        a, b_ = sibs[k]
        body = list(w[start:a]) + list(w[b_:end])
    elif op == 'swap':
        a, b_ = sibs[k]
        c, d = sibs[k + 1]
        body = list(w[start:a]) + list(w[c:d]) + list(w[a:b_]) + list(w[d:end])
    else:
        raise AssertionError(op)
    buf = _rebuild(w, start, end, body)
    if buf is None:
        eng.reach('edit-not-representable')
        return
    _run(eng, kind, bwrap(buf))


def _rebuild(w, start, end, body):
    """replace w[start:end] (the value of some element, or the whole buffer) by body and re-encode all enclosing
    lengths exactly"""
    def rec(s, e):
        # returns new bytes for region [s,e) of w
        if s == start and e == end:
            return list(body)
        out = []
        off = s
        while off < e:
            t, ts, _ = ref.rd_num(list(w), off, e)
            l, ls, _ = ref.rd_num(list(w), off + ts, e)
            vs = off + ts + ls
            if vs <= start and end <= vs + l and (t in CONTAINER_TYPES):
                inner = rec(vs, vs + l)
                n = len(inner)
                ln = [n] if n <= 0xFC else [0xFD] + list(n.to_bytes(2, 'big'))
                out += list(w[off:off + ts]) + ln + inner
            else:
                out += list(w[off:vs + l])
            off = vs + l
        return out
    return rec(0, len(w))


# ---------------------------------------------------------------------------------------------
# a Data packet with a LONG Content: declared lengths and actual payload length are independent solver variables
# ---------------------------------------------------------------------------------------------
def _num_form(eng, v, form):
    """TLV number v (int or SInt) in the 1/3/5-octet form (the property does not demand shortest forms)"""
    from symex.core import pack_uint, SInt as _SInt
    if form == 1:
        return [v]
    size = 2 if form == 3 else 4
    if isinstance(v, _SInt):
        return [0xFD if form == 3 else 0xFE] + pack_uint(v, size)
    return [0xFD if form == 3 else 0xFE] + list(int(v).to_bytes(size, 'big'))


def h_long(eng, case):
    """06 <L> Name [MetaInfo] 15 <cl> <payload of n octets> [SignatureInfo SignatureValue]: L (outer), cl (Content) and
    n (actual payload length, opaque content) are independent; accept only if L is exact and the Content ends inside the
    packet; then the Content returned is exactly the cl octets announced.  Assumed: cl >= n (a Content that ends INSIDE the
    opaque payload makes the decoder read payload octets as structure - that is the business of the short-buffer cases)"""
    from symex import elastic
    from symex.api import sym
    enc = _enc()
    fo, fc = case['forms']
    payload, n = eng.elastic('content', 0, case['max'])
    lim = {1: 0xFC, 3: 0xFFFF, 5: 0xFFFFFFFF}
    L = eng.int('L', 0, lim[fo])
    cl = eng.int('cl', 0, lim[fc])
    eng.assume(cl >= n)
    name = _tlv(7, _tlv(8, b'a') + _tlv(8, b'bc'))
    meta = _tlv(0x14, _tlv(0x19, b'\x10')) if case.get('meta') else []
    tail = (_tlv(0x16, _tlv(0x1b, b'\x00')) + _tlv(0x17, bytes(range(1, 9)))) if case.get('sig') else []
    pre = [6] + _num_form(eng, L, fo) + list(name) + list(meta) + [0x15] + _num_form(eng, cl, fc)
    if sym():
        wire = elastic.buffer_from(pre, payload, list(tail))
    else:
        wire = memoryview(bytes(pre) + bytes(payload) + bytes(tail))
    hdr = 1 + fo
    body = len(pre) - hdr + n + len(tail)
    cstart = len(pre)
    # reference verdict (strict reading of the format)
    outer_ok = (L == body)
    room = n + len(tail)                      # octets between the start of the Content value and the end of the packet
    inside = (cl <= room)
    acc = None
    try:
        acc = enc.parse_data(wire)
    except Exception as e:
        ok = any(c.__name__ in ALLOWED for c in type(e).__mro__)
        if not ok:
            eng.fail('documented-error-class', exc_sig(e), repr(e)[:160])
            return
    eng.observe('impl_accepts', acc is not None)
    if acc is None:
        eng.reach('rejected')
        return
    if not outer_ok:
        eng.fail('accepts-only-wellformed', 'accepts:outer length does not match the buffer', {'kind': 'data-long'})
        return
    if not inside:
        eng.fail('accepts-only-wellformed', 'accepts:overrun:model', {'kind': 'data-long', 'reason': 'overrun:model'})
        return
    # what follows the Content must be well-formed for an acceptance: the rest of the tail from offset cl - n
    k = as_int(cl - n)
    rest = list(tail)[k:]
    try:
        if rest:
            ref.decode_model(rest, 0, len(rest), [e for e in ref.DATA if e[0] in ('signature_info', 'signature_value')], False)
        rest_ok = True
    except ref.RefReject as r:
        rest_ok = False
        why = r.args[0]
    if not rest_ok:
        eng.fail('accepts-only-wellformed', 'accepts:' + why, {'kind': 'data-long', 'reason': why, 'content_swallows': k})
        return
    eng.check(True, 'accepts-only-wellformed')
    nm, mi, content, sigp = acc
    eng.check(env.names_equal(nm, [list(_tlv(8, b'a')), list(_tlv(8, b'bc'))]), 'fields-name')
    if k == 0:
        eng.check(content is not None and (content == payload), 'fields-content')
    else:
        from symex.core import s_len
        eng.check(content is not None and s_len(content) == cl, 'fields-content', sig='content-length')
    eng.observe('n', n)
    eng.observe('cl', cl)
    eng.reach('end')


HARNESSES = {'long': h_long, 'sym_data': h_sym, 'sym_interest': h_sym, 'sym_lp': h_sym, 'sym_cert': h_sym, 'sym_name': h_sym,
             'tmpl': h_tmpl, 'edit': h_edit}


def cases(tier, seed):
    cs = []
    quick = tier == 'quick'
    # long Content: declared and actual lengths as independent solver variables (elastic buffer)
    for fo, fc in ((3, 3), (3, 1), (5, 3), (5, 5)) + (() if quick else ((1, 1), (3, 5), (5, 1))):
        for sig in (False, True):
            cs.append(('long', {'forms': [fo, fc], 'sig': sig, 'meta': sig, 'max': 70000 if quick else 2 ** 20},
                       {'weight': 20}))
    maxn = 7 if quick else 10
    for kind in ('data', 'interest', 'lp', 'cert', 'name'):
        top = maxn + (1 if kind == 'name' else 0) + (0 if quick else (1 if kind == 'name' else 0))
        for n in range(0, top + 1):
            if n == 0:
                cs.append(('sym_' + kind, {'kind': kind, 'n': 0}))
                continue
            cs.append(('sym_' + kind, {'kind': kind, 'n': n, 'typed': False}))
            opts = {'split_depth': 6} if n >= 7 else {}
            cs.append(('sym_' + kind, {'kind': kind, 'n': n, 'typed': True}, opts))
    T = templates()
    for tn, (kind, w) in T.items():
        pos = tl_positions(w, 0, len(w), 0, CONTAINER_TYPES)
        for i in range(len(pos)):
            for form in (1, 3, 5, 9):
                cs.append(('tmpl', {'tmpl': tn, 'pos': i, 'form': form}))
        groups = _elements(w, 0, len(w), 0, CONTAINER_TYPES)
        for gi, (s, e, sibs) in enumerate(groups):
            for k in range(len(sibs) + 1):
                for form, vlen in ((1, 0), (1, 2), (3, 1)):
                    cs.append(('edit', {'tmpl': tn, 'group': gi, 'op': 'insert', 'k': k, 'form': form, 'vlen': vlen}))
            for k in range(len(sibs)):
                cs.append(('edit', {'tmpl': tn, 'group': gi, 'op': 'dup', 'k': k}))
                cs.append(('edit', {'tmpl': tn, 'group': gi, 'op': 'remove', 'k': k}))
            for k in range(len(sibs) - 1):
                cs.append(('edit', {'tmpl': tn, 'group': gi, 'op': 'swap', 'k': k}))
    return cs
