# C03 -- every expressed Interest completes exactly once with the right outcome.
# Real code executed symbolically: appv2.NDNApp.express / express_raw_interest / _wait_for_data / _on_data /
# _on_nack / _receive / _clean_up / main_loop / shutdown, appv2.InterestTreeNode.*, PendingIntEntry.satisfy; the
# legacy app.NDNApp.express_interest / express_raw_interest / _wait_for_data / _on_data / _on_nack / _clean_up,
# name_tree.InterestTreeNode.*, NameTrie; asyncio futures / tasks / wait_for / timeouts on the virtual-time loop.
import asyncio
import hashlib
from symex import vloop
from symex.api import And, Or, Not, Implies, Iff, blist, bwrap, beq, exc_sig, as_int
from symex.core import SInt
from . import env, appenv

PROPERTY = 'C03'
INFO = {
    'explanation': 'C03: scenarios of I Interests and E external events (Data, Nack, caller cancel, shutdown) in every '
                   'interleaving; gaps between actions, lifetimes and validator latency are solver variables, so every '
                   'relative order of deadline expiry, validator completion and packet arrival is one path of the real '
                   'asyncio machinery on the virtual clock.  A reference simulator of the statement gives the admissible '
                   'outcomes per Interest (ties at an instant admit both).',
    'bounds': {'quick': {'interests': '1..2 on names from {/a, /a/b, /a/c, /a/b/<digest>, /a/b/<wrong digest>, /a/<digest of the packet named /a/b>}',
                         'events': '0..2', 'lifetime_ms': '[1,10000]', 'gaps_ms': '[1,10000]',
                         'validator_latency_ms': '[0,20000]', 'front_ends': 'appv2 and legacy app'},
               'thorough': {'interests': '1..3', 'events': '0..3'}},
    'outside': ['more concurrent Interests / events than the bound', 'sub-millisecond timing', 'real sockets'],
    'assumptions': ['virtual-time event loop: CPython BaseEventLoop logic, clock and selector replaced',
                    'utils.timestamp() = floor of the loop time in ms'],
}
OPTS = {'quick': {'replay_every': 3}, 'thorough': {'replay_every': 5}}
MANDATORY = {'v2': ['outcome-admissible'], 'v1': ['outcome-admissible'], 'two_apps': ['outcome-admissible']}

NAMES = ['/a', '/a/b', '/a/c']
DATA_NAMES = ['/a', '/a/b', '/a/c', '/a/b/d']
_C = {}


def _setup():
    if _C:
        return _C
    import ndn.encoding as enc
    datas = []
    for i, n in enumerate(DATA_NAMES):
        datas.append(bytes(enc.make_data(n, enc.MetaInfo(), ('D%d' % i).encode())))
    dig = hashlib.sha256(datas[1]).digest()
    wrong = bytes([dig[0] ^ 1]) + dig[1:]
    inames = [enc.Name.from_str(n) for n in NAMES]
    inames.append(enc.Name.from_str('/a/b') + [enc.Component.from_bytes(dig, 1)])
    inames.append(enc.Name.from_str('/a/b') + [enc.Component.from_bytes(wrong, 1)])
    # the digest of a packet with a LONGER name (/a/b) appended to /a: names no packet unless CanBePrefix is set
    inames.append(enc.Name.from_str('/a') + [enc.Component.from_bytes(dig, 1)])
    _C.update(idig={3: dig, 4: wrong, 5: dig}, dhash=[hashlib.sha256(d).digest() for d in datas])
    _C.update(datas=datas, inames=[[bytes(c) for c in n] for n in inames],
              dnames=[[bytes(c) for c in enc.Name.from_str(n)] for n in DATA_NAMES])
    return _C


def ref_matches(iname_idx, cbp, d_idx):
    """does Data d match Interest (name idx, CanBePrefix)?  (NDN packet format 0.3)"""
    C = _setup()
    iname = C['inames'][iname_idx]
    dname = C['dnames'][d_idx]
    if iname_idx >= 3:
        # implicit digest: the packet hash must equal the digest, and the name without the digest component must be
        # the Data name (or a proper prefix of it when CanBePrefix is set), as the statement puts it
        iname = iname[:-1]
        if C['idig'][iname_idx] != C['dhash'][d_idx]:
            return False
    if iname == dname:
        return True
    if len(iname) < len(dname) and dname[:len(iname)] == iname:
        return cbp
    return False


def scenario(eng, case, front):
    """returns after the run; all checks inside"""
    import ndn.types as types
    import ndn.encoding as enc
    C = _setup()
    nI, nE = case['I'], case['E']
    # merged order of actions, chosen by the solver-pruned choice
    order = case['order']          # string of 'x' (express) and 'e' (event)
    imenu = case.get('inames') or [list(range(len(C['inames'])))] * nI
    dmenu = case.get('dnames') or list(range(len(DATA_NAMES)))
    ints = []
    for i in range(nI):
        ints.append({'name': imenu[i][eng.choice(len(imenu[i]), 'iname')],
                     'cbp': eng.bool('cbp') if case.get('cbp') is None else case['cbp'],
                     'life': eng.int('life', 1, 10000)})
    evs = []
    for k in range(nE):
        kmenu = (case.get('kinds') or [['data', 'nack', 'cancel', 'shutdown']] * nE)[k]
        ev = {'kind': kmenu[eng.choice(len(kmenu), 'kind')]}
        if ev['kind'] == 'data':
            ev['d'] = dmenu[eng.choice(len(dmenu), 'd')]
        elif ev['kind'] == 'nack':
            ev['i'] = eng.choice(nI, 'nack_i')
            ev['reason'] = eng.int('reason', 0, 2 ** 64 - 1)
        elif ev['kind'] == 'cancel':
            ev['i'] = eng.choice(nI, 'cancel_i')
        evs.append(ev)
    dV = eng.int('dV', 0, 20000) if front == 'v2' else 0
    verd = {}                     # verdict per Interest, chosen when (and if) its validator is invoked
    gaps = [0] + [eng.int('gap', 1, 10000) for _ in range(len(order) - 1)]
    T = []
    acc = 0
    for g in gaps:
        acc = acc + g
        T.append(acc)
    app, face = appenv.make_app(front)
    shared_param = [enc.InterestParam()]
    VR = list(types.ValidResult)
    outcomes = [None] * nI
    tasks = [None] * nI
    sent_idx = [None] * nI
    state = {'shut': False}

    def v2_validator(i):
        async def validator(name, sig, ctx):
            vm = case.get('verdicts') or list(range(len(VR)))
            verd[i] = VR[vm[eng.choice(len(vm), 'verdict')]]
            await asyncio.sleep(dV / 1000.0)
            return verd[i]
        return validator

    def v1_validator(i):
        async def validator(name, sig):
            verd[i] = bool(eng.choice(2, 'verdict'))
            return verd[i]
        return validator

    async def consumer(i):
        it = ints[i]
        name = C['inames'][it['name']]
        try:
            if front == 'v2' and case.get('shared_param'):
                # the caller keeps ONE InterestParam object and re-uses it (documented keyword interest_param=):
                # what an earlier Interest was expressed with must not change when the object is changed later
                sp = shared_param[0]
                sp.lifetime, sp.can_be_prefix, sp.nonce = it['life'], bool(it['cbp']), 1000 + i
                n, content, ctx = await app.express(name, v2_validator(i), interest_param=sp)
            elif front == 'v2':
                n, content, ctx = await app.express(name, v2_validator(i), lifetime=it['life'], can_be_prefix=it['cbp'],
                                                    nonce=1000 + i)
            else:
                n, meta, content = await app.express_interest(name, validator=v1_validator(i), lifetime=it['life'],
                                                              can_be_prefix=it['cbp'], nonce=1000 + i)
            outcomes[i] = ('data', bytes(content))
        except types.InterestNack as e:
            outcomes[i] = ('nack', e.reason)
        except types.InterestTimeout:
            outcomes[i] = ('timeout',)
        except types.InterestCanceled:
            outcomes[i] = ('canceled',)
        except types.ValidationFailure as e:
            outcomes[i] = ('vfail', getattr(e, 'result', None), bytes(e.content))
        except types.NetworkError:
            outcomes[i] = ('neterror',)
        except Exception as e:
            outcomes[i] = ('error', exc_sig(e))

    async def main(loop):
        ml = asyncio.ensure_future(app.main_loop())
        await asyncio.sleep(0)
        xi = 0
        ek = 0
        for j, a in enumerate(order):
            await vloop.sleep_until(loop, loop.at_ms(T[j]))
            if a == 'x':
                sent_idx[xi] = len(face.out)
                tasks[xi] = asyncio.ensure_future(consumer(xi))
                await asyncio.sleep(0)      # let it reach express() within the same instant
                xi += 1
            else:
                ev = evs[ek]
                ek += 1
                try:
                    if ev['kind'] == 'data':
                        if case.get('lp'):
                            # the same Data inside a link-layer envelope (CongestionMark header): C10 says "as bare"
                            d = C['datas'][ev['d']]
                            body = [0xFD, 0x03, 0x40, 1, 1, 0x50, len(d)] + list(d)
                            await app._receive(0x64, bytes([0x64, len(body)] + body))
                        else:
                            await app._receive(6, C['datas'][ev['d']])
                    elif ev['kind'] == 'nack':
                        i = ev['i']
                        if tasks[i] is not None and sent_idx[i] is not None and sent_idx[i] < len(face.out):
                            wire = enc.make_network_nack(face.out[sent_idx[i]], ev['reason'])
                            await app._receive(0x64, wire)
                    elif ev['kind'] == 'cancel':
                        if tasks[ev['i']] is not None:
                            tasks[ev['i']].cancel()
                    else:
                        app.shutdown()
                        face._stop.set_result(None) if not face._stop.done() else None
                        state['shut'] = True
                except Exception as e:
                    eng.fail('receive-returns-normally', exc_sig(e), repr(e)[:160])
        # quiescence: wait for every consumer, then past every deadline and validator
        for t in tasks:
            if t is not None:
                try:
                    await t
                except asyncio.CancelledError:
                    pass
        horizon = T[-1] + dV + 1
        for it in ints:
            horizon = horizon + it['life']
        await vloop.sleep_until(loop, loop.at_ms(horizon))
        if not state['shut']:
            app.shutdown()
            if not face._stop.done():
                face._stop.set_result(None)
        try:
            await ml
        except Exception as e:
            eng.fail('main-loop-ends-normally', exc_sig(e), repr(e)[:160])
        return True

    pit_before = None
    loop, res, err = appenv.run(eng, main)
    if err == 'deadlock':
        eng.fail('every-interest-finishes', 'deadlock', {'outcomes': repr(outcomes)})
        return
    import os
    if os.environ.get('C03_DEBUG'):
        import sys
        print('SCENARIO order=%s ints=%r evs=%r T=%r dV=%r verd=%r outcomes=%r' % (order, ints, evs, T, dV, verd, outcomes),
              file=sys.stderr)
    # ---------------- reference simulator ----------------
    xi = -1
    xpos = []
    for j, a in enumerate(order):
        if a == 'x':
            xpos.append(j)
    shut_at = None
    for i in range(nI):
        it = ints[i]
        D = T[xpos[i]] + it['life']
        adm = []
        done = False
        ek = -1
        # was the face already shut down when the Interest was expressed?
        pre_shut = False
        for j, a in enumerate(order):
            if a != 'e':
                continue
            ek += 1
            if j < xpos[i]:
                if evs[ek]['kind'] == 'shutdown':
                    pre_shut = True
                continue
            if done:
                continue
            ev = evs[ek]
            t = T[j]
            if t > D:
                break
            tie = bool(t == D)
            if tie:
                adm.append(('timeout',))
            if ev['kind'] == 'data' and ref_matches(it['name'], it['cbp'], ev['d']):
                content = ('D%d' % ev['d']).encode()
                fin = t + dV
                if i not in verd:
                    res = ('validator-not-consulted',)
                elif front == 'v2':
                    ok_v = verd[i] in (types.ValidResult.PASS, types.ValidResult.ALLOW_BYPASS)
                    res = ('data', content) if ok_v else ('vfail', verd[i], content)
                else:
                    res = ('data', content) if verd[i] else ('vfail', None, content)
                if fin < D:
                    adm.append(res)
                elif fin == D:
                    adm.append(res)
                    adm.append(('timeout',))
                else:
                    adm.append(('timeout',))
                # while the validator runs the caller may still cancel; a shutdown may or may not reach the
                # (already satisfied) Interest - both readings of the statement are admitted
                ek2 = ek
                for j2 in range(j + 1, len(order)):
                    if order[j2] != 'e':
                        continue
                    ek2 += 1
                    ev2 = evs[ek2]
                    t2 = T[j2]
                    if t2 > fin or t2 > D:
                        break
                    tie2 = bool(t2 == fin) or bool(t2 == D)
                    if ev2['kind'] == 'cancel' and ev2['i'] == i:
                        if tie2:
                            adm.append(('canceled',))
                        else:
                            adm = [('canceled',)]
                        break
                    if ev2['kind'] == 'shutdown':
                        adm.append(('canceled',))
                        break
                done = True
            elif ev['kind'] == 'nack' and _same_interest(ints, ev['i'], i) and xpos[ev['i']] < j:
                adm.append(('nack', ev['reason']))
                done = True
            elif ev['kind'] == 'cancel' and ev['i'] == i:
                adm.append(('canceled',))
                done = True
            elif ev['kind'] == 'shutdown':
                adm.append(('canceled',))
                done = True
        if pre_shut:
            adm = [('neterror',)]
        elif not done:
            adm.append(('timeout',))
        got = outcomes[i]
        if got is None:
            eng.fail('every-interest-finishes', 'no-outcome', {'i': i})
            continue
        if got[0] == 'error':
            eng.fail('no-internal-error', got[1], {'i': i, 'front': front})
            continue
        ok = False
        for a in adm:
            if a[0] != got[0]:
                continue
            if a[0] == 'nack':
                ok = Or(ok, got[1] == a[1])
            elif a[0] == 'vfail' and front == 'v2':
                ok = Or(ok, got[1] == a[1] and got[2] == a[2])
            elif a[0] == 'vfail':
                ok = Or(ok, got[2] == a[2])
            elif a[0] == 'data':
                ok = Or(ok, got[1] == a[1])
            else:
                ok = True
        sig = '%s-instead-of-%s%s' % (got[0], '|'.join(sorted(set(a[0] for a in adm))),
                                      ':implicit-digest' if it['name'] >= 3 else '')
        eng.check(ok, 'outcome-admissible', {'i': i, 'got': repr(got), 'admissible': repr(adm)[:200]}, sig=sig)
        eng.observe('outcome%d' % i, [got[0]] + [x for x in got[1:] if isinstance(x, (int, bytes, SInt))])
    if loop.errors:
        ctx = loop.errors[0]
        exc = ctx.get('exception')
        eng.fail('no-unhandled-error-in-loop', exc_sig(exc) if exc is not None else ctx.get('message', '?'),
                 ctx.get('message'))
    tree = app._pit if front == 'v2' else app._int_tree
    eng.check(len(tree) == 0, 'nothing-remains-pending', {'left': len(tree)})
    eng.reach('end')


def _same_interest(ints, a, b):
    """Interests a and b carry the same name (a Nack names an Interest)"""
    return ints[a]['name'] == ints[b]['name']


def h_v2(eng, case):
    scenario(eng, case, 'v2')


def h_v1(eng, case):
    scenario(eng, case, 'v1')


def h_two_apps(eng, case):
    """two application objects of the same front-end in one process, each on its own face: what arrives on (or happens
    to) one of them never completes an Interest expressed on the other"""
    import ndn.types as types
    import ndn.encoding as enc
    front = case['front']
    appA, faceA = appenv.make_app(front)
    appB, faceB = appenv.make_app(front)
    out = {}

    async def pass_v2(name, sig, ctx):
        return types.ValidResult.PASS

    async def pass_v1(name, sig):
        return True

    async def consumer(app, tag, name):
        try:
            if front == 'v2':
                n, c, ctx = await app.express(name, pass_v2, lifetime=4000, nonce=5, can_be_prefix=True)
            else:
                n, m_, c = await app.express_interest(name, validator=pass_v1, lifetime=4000, nonce=5, can_be_prefix=True)
            out[tag] = ('data', bytes(c))
        except Exception as e:
            out[tag] = (type(e).__name__,)
    dA = bytes(enc.make_data('/a/b', enc.MetaInfo(), b'from-face-A'))
    dB = bytes(enc.make_data('/a/b', enc.MetaInfo(), b'from-face-B'))
    first = eng.choice(3, 'event-on-A')            # what happens on A while B waits

    async def main(loop):
        mlA = asyncio.ensure_future(appA.main_loop())
        mlB = asyncio.ensure_future(appB.main_loop())
        await asyncio.sleep(0)
        tB = asyncio.ensure_future(consumer(appB, 'B', '/a/b'))
        await asyncio.sleep(0)
        await vloop.sleep_until(loop, loop.at_ms(10))
        if first == 0:
            await appA._receive(6, dA)
        elif first == 1:
            nk = enc.make_network_nack(enc.make_interest('/a/b', enc.InterestParam(nonce=5, lifetime=4000,
                                                                                    can_be_prefix=True)), 150)
            await appA._receive(0x64, nk)
        else:
            appA.shutdown()
        for _ in range(5):
            await asyncio.sleep(0)
        out['B-after-A-event'] = out.get('B')
        await vloop.sleep_until(loop, loop.at_ms(20))
        await appB._receive(6, dB)
        await tB
        appA.shutdown()
        appB.shutdown()
        for t in (mlA, mlB):
            try:
                await t
            except Exception:
                pass
    loop, r, err = appenv.run(eng, main, max_steps=20000)
    if err == 'deadlock':
        eng.fail('outcome-admissible', 'deadlock')
        return
    eng.check(out.get('B-after-A-event') is None, 'outcome-admissible', {'B': repr(out.get('B-after-A-event'))},
              sig='completed-by-an-event-on-another-application')
    eng.check(out.get('B') == ('data', b'from-face-B'), 'outcome-admissible', {'B': repr(out.get('B'))},
              sig='other-application:%s' % (out.get('B') or ('none',))[0])
    eng.reach('end')


def h_cancelled(eng, case):
    """Data or a Nack processed in the same instant in which a waiter was cancelled (C06's harness; here for the clause
    "a finished Interest cannot affect the others")"""
    from .c06 import h_cancelled as h
    h(eng, case)


HARNESSES = {'v2': h_v2, 'v1': h_v1, 'two_apps': h_two_apps, 'cancelled': h_cancelled}


def _orders(nI, nE):
    out = set()

    def rec(s, x, e):
        if x == 0 and e == 0:
            out.add(s)
            return
        if x:
            rec(s + 'x', x - 1, e)
        if e and 'x' in s:
            rec(s + 'e', x, e - 1)
        elif e and x == 0:
            pass
    rec('', nI, nE)
    return sorted(out)


def cases(tier, seed):
    cs = []
    quick = tier == 'quick'
    for front in ('v2', 'v1'):
        cs.append(('two_apps', {'front': front}, {'weight': 3}))
        for ev in ('data', 'nack'):
            for n in (2, 3):
                cs.append(('cancelled', {'front': front, 'consumers': n, 'event': ev}, {'weight': 3}))

    def add(front, nI, nE, order, inames=None, dnames=None, kinds=None, w=None):
        case = {'I': nI, 'E': nE, 'order': order}
        if nI >= 2 and nE >= 1:
            case['verdicts'] = [3, 0]          # PASS / FAIL; the full verdict table is explored with one Interest
        if inames:
            case['inames'] = inames
        if dnames:
            case['dnames'] = dnames
        if kinds:
            case['kinds'] = kinds
        cs.append((front, case, {'weight': w or (1 + 5 * nI * nE), 'split_depth': 6 if nI + nE >= 3 else None}))
    for front in ('v2', 'v1'):
        # one Interest: every name, every event kind
        for nE in (0, 1):
            for order in _orders(1, nE):
                add(front, 1, nE, order)
        for order in _orders(1, 2):
            if quick:
                add(front, 1, 2, order, [[1, 3]], [1, 3])
            else:
                add(front, 1, 2, order, [[0, 1, 3, 4]], [1, 3, 2])
        # Data arriving inside a link-layer envelope: every name (incl. implicit digests), one Interest, one event
        cs.append((front, {'I': 1, 'E': 1, 'order': 'xe', 'lp': True, 'kinds': [['data']]}, {'weight': 6}))
        # two Interests on the same / nested nodes
        for order in _orders(2, 0):
            add(front, 2, 0, order, [[1, 0], [1, 3]], [1, 3])
        if quick:
            for order in _orders(2, 1):
                add(front, 2, 1, order, [[1], [1, 0, 3] if front == 'v2' else [1, 0]], [1, 3], None, 40)
            # an implicit digest taken from a packet with a longer name, next to the Interest for that packet
            add(front, 2, 1, 'xxe', [[5], [1]], [1], [['data']], 20)
            # two events: timing-focused families (kinds restricted; the legacy front-end gets the smaller menu in quick)
            add(front, 2, 2, 'xxee', [[1], [1, 0]], [1], [['data'], ['data']], 60)
            add(front, 2, 2, 'xexe', [[1], [1]], [1], [['nack', 'cancel'] if front == 'v2' else ['nack'], ['data', 'nack']], 60)
            if front == 'v2':
                case = {'I': 2, 'E': 1, 'order': 'xxe', 'verdicts': [3], 'inames': [[0, 1], [1, 0]], 'dnames': [1, 3],
                        'kinds': [['data']], 'shared_param': True}
                cs.append((front, case, {'weight': 40, 'split_depth': 5}))
            if front == 'v2':
                # Data for the first Interest, a second Interest for the same name while the first one's validator
                # is still running (its deadline may pass meanwhile), then Data again
                case = {'I': 2, 'E': 2, 'order': 'xexe', 'verdicts': [3, 0], 'inames': [[1], [1]], 'dnames': [1],
                        'kinds': [['data'], ['data']], 'cbp': False}
                cs.append((front, case, {'weight': 60, 'split_depth': 6}))
        else:
            for order in _orders(2, 1):
                add(front, 2, 1, order, [[1, 0], [1, 3]], [1, 3], None, 100)
            for order in _orders(2, 2):
                add(front, 2, 2, order, [[1], [1]], [1], [['nack', 'cancel'], ['data', 'nack']], 100)
            for order in _orders(2, 2):
                add(front, 2, 2, order, [[1, 0], [1, 3]], [1, 3], None, 200)
                add(front, 2, 2, order, [[1], [1, 0]], [1], [['data'], ['data']], 40)
            for order in _orders(3, 0) + _orders(3, 1):
                add(front, 3, len(order) - 3, order, [[1, 0], [1, 3], [1]], [1, 3], None, 100)
            for order in _orders(3, 2):
                add(front, 3, 2, order, [[1], [1, 0], [1]], [1], [['data'], ['data', 'nack']], 200)
            for order in _orders(2, 3):
                add(front, 2, 3, order, [[1], [1, 0]], [1], [['data'], ['data', 'cancel'], ['data']], 200)
    return cs
