# C01 -- Interest and Data packets survive an encode/decode round trip.
# Real code executed symbolically: make_interest, make_data, parse_interest, parse_data, TlvModel.encode /
# encoded_length / parse, all Field codecs reached, InterestNameField, SignatureValueField.calculate_signature,
# shrink_length, Name.decode/encode, write_tl_num / parse_tl_num / get_tl_num_size, the shipped signer classes
# (on ideal primitives).
import itertools
from symex import crypto
from symex.api import And, Or, Not, Implies, Iff, blist, bwrap, beq, exc_sig, as_int
from . import ref, env

PROPERTY = 'C01'

INFO = {
    'explanation': 'C01: encoder output is checked by an independent strict TLV reader (one element, exact nested '
                   'lengths, shortest type/length forms, field values equal to the inputs) and the real decoder must '
                   'return the inputs.',
    'bounds': {
        'quick': {'name_components': '0..3, value 0..2 symbolic bytes, type symbolic in 1- and 3-byte form',
                  'integers': 'nonce [0,2^32), lifetime/content_type/freshness [0,2^64), hop_limit [0,256) all symbolic',
                  'payload_symbolic_bytes': '0..4', 'payload_concrete_lengths': '230..300 and 65500..65560 (zero filled)',
                  'payload_symbolic_length': 'elastic harnesses: Content / ApplicationParameters of opaque content whose '
                                             'LENGTH is a solver variable in [0, 70000] (thorough [0, 2^20]); signers '
                                             'none, null, digest, hmac, ecdsa (real signature length 70..72; thorough '
                                             'every signer and every length 0..72)',
                  'signature_real_length': 'symbolic r in [0,72] for ECDSA, fixed for the others',
                  'final_block_id': 'absent or 0..3 symbolic bytes', 'forwarding_hint': '0..2 names'},
        'thorough': {'name_components': '0..4', 'payload_symbolic_bytes': '0..8',
                     'payload_concrete_lengths': '0..400, 65400..65700 step 1 plus 2^16+-40'}},
    'outside': ['names longer than the bound', 'RSA-style signatures >= 253 bytes with shrink (raises by design)',
                'real DER structure of signatures', 'payload lengths above 2^20; in the enumerated-length harnesses each '
                'enumerated length is solver-decided in every other variable; in the elastic harnesses the payload content '
                'is opaque (never inspected by the encoder / decoder) and a digest or signature over a message containing '
                'it is an unconstrained value'],
    'assumptions': ['ideal hash / signature model (symex/crypto.py)', 'struct / bytes / bytearray / memoryview / int / '
                    'isinstance / len shims (symex/core.py) validated by native replay of every path',
                    'clock and nonce are arbitrary values of their range'],
}
MANDATORY = {'data_fields': ['data-rt-content', 'data-ref-wellformed'],
             'reuse': ['caller-name-unchanged', 'end'],
             'data_elastic': ['data-rt-content', 'data-ref-wellformed', 'end'],
             'interest_elastic': ['int-rt-app', 'int-ref-wellformed', 'end'],
             'interest_fields': ['int-rt-name', 'int-ref-wellformed']}


def _lib():
    import ndn.encoding as enc
    return enc


def _digest_comp_ok(c):
    c = blist(c)
    return And(len(c) == 34, c[0] == 2, c[1] == 32) if len(c) == 34 else False


# ---------------------------------------------------------------------------------------------
def ref_check_data(eng, w, name, meta_in, content, signer_kind):
    """the reference reader's view of an emitted Data wire (list of byte elements); returns its field dict or None"""
    try:
        rv = ref.parse_data(w)
        ok, tree = ref.strict_tree(w, 0, len(w), [('data', 6, 'model', (ref.DATA, False))])
    except ref.RefReject as r:
        eng.fail('data-ref-wellformed', 'ref-reject:' + r.args[0])
        return None
    eng.check(ok, 'data-ref-wellformed')
    d = dict(tree)
    eng.check(env.names_equal(rv['name'], name), 'data-ref-name')
    if content is None:
        eng.check('content' not in rv, 'data-ref-content')
    else:
        eng.check('content' in rv and beq(rv['content'], content), 'data-ref-content')
    rm = rv.get('meta_info')
    if meta_in is None:
        eng.check(rm is None, 'data-ref-meta')
    else:
        eng.check(rm is not None, 'data-ref-meta')
        for key, fld in (('ct', 'content_type'), ('fp', 'freshness_period')):
            if meta_in[key] is None:
                eng.check(fld not in rm, 'data-ref-meta')
            else:
                eng.check(fld in rm and rm[fld] == meta_in[key], 'data-ref-meta')
                t = d['data.meta_info.' + fld]
                eng.check(ref.uint_min_width(meta_in[key], t.ve - t.vs), 'data-ref-uint-width')
        if meta_in['fbi'] is None:
            eng.check('final_block_id' not in rm, 'data-ref-meta')
        else:
            eng.check('final_block_id' in rm and beq(rm['final_block_id'], meta_in['fbi']), 'data-ref-meta')
    if signer_kind == 'none':
        eng.check('signature_info' not in rv and 'signature_value' not in rv, 'data-ref-sig')
    else:
        eng.check('signature_info' in rv and 'signature_value' in rv, 'data-ref-sig')
        eng.check(rv['signature_info'].get('signature_type') == env.SIG_TYPE[signer_kind], 'data-ref-sig')
    return rv


def check_data(eng, name, meta_in, content, signer_kind, signer, form='list', name_obj=None, meta_obj=None):
    """encode, check the wire with the reference reader, decode, compare. meta_in = None | dict"""
    enc = _lib()
    if meta_in is None:
        meta = None
    elif meta_obj is not None:
        # the caller keeps ONE MetaInfo object and re-assigns its fields between packets
        meta = meta_obj
        meta.content_type = meta_in['ct']
        meta.freshness_period = meta_in['fp']
        meta.final_block_id = meta_in['fbi']
    else:
        meta = enc.MetaInfo(content_type=meta_in['ct'], freshness_period=meta_in['fp'],
                            final_block_id=meta_in['fbi'])
    try:
        wire = enc.make_data(env.name_in_form(name, form) if name_obj is None else name_obj, meta, content, signer)
    except Exception as e:
        eng.fail('data-encode-raises', exc_sig(e), repr(e)[:200])
        return None
    rv = ref_check_data(eng, blist(wire), name, meta_in, content, signer_kind)
    if rv is None:
        return None
    # real decoder
    try:
        n2, m2, c2, sig = enc.parse_data(wire)
    except Exception as e:
        eng.fail('data-decode-raises', exc_sig(e), repr(e)[:200])
        return None
    eng.check(env.names_equal(n2, name), 'data-rt-name')
    eng.check(beq(c2, content), 'data-rt-content')
    if meta_in is None:
        eng.check(And(m2.content_type == 0, m2.freshness_period is None, m2.final_block_id is None), 'data-rt-meta')
    else:
        for key, fld in (('ct', 'content_type'), ('fp', 'freshness_period')):
            got = getattr(m2, fld)
            if meta_in[key] is None:
                eng.check(got is None, 'data-rt-meta')
            else:
                eng.check(got is not None and got == meta_in[key], 'data-rt-meta')
        eng.check(beq(m2.final_block_id, meta_in['fbi']), 'data-rt-meta')
    if signer_kind == 'none':
        eng.check(sig.signature_info is None and sig.signature_value_buf is None, 'data-rt-sig')
    else:
        eng.check(sig.signature_info is not None and sig.signature_value_buf is not None, 'data-rt-sig')
    regions = []
    if 'sigvalue' in rv['#region']:
        _, vs, ve = rv['#region']['sigvalue']
        regions.append((vs, ve))
        eng.observe('sig_len', ve - vs)
    eng.observe('wire', env.mask(wire, regions))
    return wire


def h_data_fields(eng, case):
    env.symbolic_env(eng)
    name = env.name_from_shape(eng, [(1, 1), (3, 0)])
    k = case['content']
    content = None if k is None else eng.bytes('content', k)
    if case.get('meta') == 'one':
        meta = {'ct': eng.int('ct', 0, 2 ** 64 - 1), 'fp': None, 'fbi': eng.bytes('fbi', 1)}
    elif eng.choice(2, 'meta?') == 0:
        meta = None
    else:
        fbi_sel = eng.choice(len(case['fbi']), 'fbi')
        fl = case['fbi'][fbi_sel]
        meta = {'ct': env.optional_int(eng, 'ct', 0, 2 ** 64 - 1), 'fp': env.optional_int(eng, 'fp', 0, 2 ** 64 - 1),
                'fbi': None if fl is None else eng.bytes('fbi', fl)}
    signer = env.make_signer(eng, case['signer'], rmin=case.get('rmin', 0))
    check_data(eng, name, meta, content, case['signer'], signer)
    eng.reach('end')


def h_data_names(eng, case):
    env.symbolic_env(eng)
    name = env.name_from_shape(eng, [tuple(x) for x in case['shape']], )
    content = eng.bytes('content', 1)
    kind = case['signer']
    signer = env.make_signer(eng, kind, rmin=case.get('rmin', 0))
    check_data(eng, name, {'ct': None, 'fp': eng.int('fp', 0, 2 ** 64 - 1), 'fbi': None}, content, kind, signer,
               form=case.get('form', 'list'))
    eng.reach('end')


def h_data_payload(eng, case):
    """payload length axis: concrete zero-filled payload of the given length, everything else symbolic"""
    env.symbolic_env(eng)
    name = env.name_from_shape(eng, [(1, 1)])
    content = bytes(case['len'])
    kind = case['signer']
    signer = env.make_signer(eng, kind)
    check_data(eng, name, {'ct': None, 'fp': None, 'fbi': None}, content, kind, signer)
    eng.reach('end')


# ---------------------------------------------------------------------------------------------
def check_interest(eng, name, digest_pos, P, app_param, signer_kind, signer, form='list', name_obj=None, param_obj=None):
    """P: dict(cbp, mbf, nonce, lifetime, hop, hints)"""
    enc = _lib()
    if param_obj is not None:
        # the caller keeps ONE InterestParam object and re-assigns its fields between Interests
        param = param_obj
        param.can_be_prefix, param.must_be_fresh, param.nonce = P['cbp'], P['mbf'], P['nonce']
        param.lifetime, param.hop_limit = P['lifetime'], P['hop']
        param.forwarding_hint = [env.name_in_form(h, form) for h in P['hints']]
    else:
        param = enc.InterestParam(can_be_prefix=P['cbp'], must_be_fresh=P['mbf'], nonce=P['nonce'],
                                  lifetime=P['lifetime'], hop_limit=P['hop'],
                                  forwarding_hint=[env.name_in_form(h, form) for h in P['hints']])
    need_digest = app_param is not None or signer is not None
    in_name = list(name)
    if digest_pos is not None:
        in_name.insert(digest_pos, env.concrete_component(2, bytes(32)))
    try:
        wire, final_name = enc.make_interest(env.name_in_form(in_name, form) if name_obj is None else name_obj,
                                             param, app_param, signer,
                                             need_final_name=True)
    except Exception as e:
        eng.fail('int-encode-raises', exc_sig(e), repr(e)[:200])
        return None
    w = blist(wire)
    try:
        rv = ref.parse_interest(w)
        ok, tree = ref.strict_tree(w, 0, len(w), [('interest', 5, 'model', (ref.INTEREST, False))])
    except ref.RefReject as r:
        eng.fail('int-ref-wellformed', 'ref-reject:' + r.args[0])
        return None
    eng.check(ok, 'int-ref-wellformed')
    d = dict(tree)
    exp_app = app_param
    if signer is not None and app_param is None:
        exp_app = b''
    # expected name: the caller's components with exactly one digest component where the caller put it,
    # otherwise appended last
    rn = rv['name']
    if need_digest:
        pos = digest_pos if digest_pos is not None else len(name)
        eng.check(len(rn) == len(name) + 1, 'int-ref-name')
        if len(rn) == len(name) + 1:
            eng.check(env.names_equal(rn[:pos] + rn[pos + 1:], name), 'int-ref-name')
            eng.check(_digest_comp_ok(rn[pos]), 'int-ref-digest-component')
            # "the parameters-digest component": its value is the digest of what the packet ON THE WIRE carries from
            # ApplicationParameters to the end (ideal hash; the reference reader delimits the range)
            ps = rv['#region'].get('params_start')
            if ps is not None and len(blist(rn[pos])) == 34:
                exp_dig = crypto.ideal('sha256', list(w[ps:rv['#outer'].ve]))
                eng.check(beq(blist(rn[pos])[2:], exp_dig), 'int-ref-digest-component', sig='digest-of-another-byte-range')
    else:
        eng.check(env.names_equal(rn, name), 'int-ref-name')
    eng.check(Iff('can_be_prefix' in rv, P['cbp']), 'int-ref-flags')
    eng.check(Iff('must_be_fresh' in rv, P['mbf']), 'int-ref-flags')
    for key, fld, fixed in (('nonce', 'nonce', 4), ('lifetime', 'lifetime', None), ('hop', 'hop_limit', 1)):
        if P[key] is None:
            eng.check(fld not in rv, 'int-ref-uint')
        else:
            eng.check(fld in rv and rv[fld] == P[key], 'int-ref-uint')
            t = d['interest.' + fld]
            if fixed:
                eng.check(t.ve - t.vs == fixed, 'int-ref-uint-width')
            else:
                eng.check(ref.uint_min_width(P[key], t.ve - t.vs), 'int-ref-uint-width')
    if P['hints']:
        fh = rv.get('forwarding_hint')
        eng.check(fh is not None and len(fh.get('names', [])) == len(P['hints']), 'int-ref-hint')
        if fh is not None and len(fh.get('names', [])) == len(P['hints']):
            for a, b in zip(fh['names'], P['hints']):
                eng.check(env.names_equal(a, b), 'int-ref-hint')
    else:
        eng.check('forwarding_hint' not in rv, 'int-ref-hint')
    if exp_app is None:
        eng.check('application_parameters' not in rv, 'int-ref-app')
    else:
        eng.check('application_parameters' in rv and beq(rv['application_parameters'], exp_app), 'int-ref-app')
    if signer is None:
        eng.check('signature_info' not in rv and 'signature_value' not in rv, 'int-ref-sig')
    else:
        eng.check('signature_info' in rv and 'signature_value' in rv, 'int-ref-sig')
        eng.check(rv['signature_info'].get('signature_type') == env.SIG_TYPE[signer_kind], 'int-ref-sig')
    # real decoder
    try:
        n2, p2, a2, sig = enc.parse_interest(wire)
    except Exception as e:
        eng.fail('int-decode-raises', exc_sig(e), repr(e)[:200])
        return None
    eng.check(env.names_equal(n2, rn), 'int-rt-name')
    eng.check(Iff(p2.can_be_prefix, P['cbp']), 'int-rt-param')
    eng.check(Iff(p2.must_be_fresh, P['mbf']), 'int-rt-param')
    for key, got in (('nonce', p2.nonce), ('lifetime', p2.lifetime), ('hop', p2.hop_limit)):
        if P[key] is None:
            eng.check(got is None, 'int-rt-param')
        else:
            eng.check(got is not None and got == P[key], 'int-rt-param')
    eng.check(len(p2.forwarding_hint) == len(P['hints']), 'int-rt-hint')
    if len(p2.forwarding_hint) == len(P['hints']):
        for a, b in zip(p2.forwarding_hint, P['hints']):
            eng.check(env.names_equal(a, b), 'int-rt-hint')
    eng.check(beq(a2, exp_app), 'int-rt-app')
    eng.check((sig.signature_info is None) == (signer is None), 'int-rt-sig')
    regions = []
    if 'sigvalue' in rv['#region']:
        _, vs, ve = rv['#region']['sigvalue']
        regions.append((vs, ve))
        eng.observe('sig_len', ve - vs)
    if need_digest:
        # digest component value is an ideal-function output
        o = rv['#outer']
        nm = d['interest.name']
        off = nm.vs
        for i, c in enumerate(rn):
            if i == (digest_pos if digest_pos is not None else len(name)):
                regions.append((off + 2, off + 34))
            off += len(c)
    eng.observe('wire', env.mask(wire, regions))
    return wire


def _params(eng, cfg):
    """cfg 'full': every field present and symbolic, 0..2 forwarding hints;
       cfg 'absent': one of nonce / lifetime / hop_limit absent, or all three, by choice; no hints"""
    if cfg == 'full':
        hints_n = eng.choice(3, 'hints')
        return {'cbp': eng.bool('cbp'), 'mbf': eng.bool('mbf'), 'nonce': eng.int('nonce', 0, 2 ** 32 - 1),
                'lifetime': eng.int('lifetime', 0, 2 ** 64 - 1), 'hop': eng.int('hop', 0, 255),
                'hints': [env.name_from_shape(eng, [(1, 1)] * (1 + i), 'h%d_' % i) for i in range(hints_n)]}
    sel = eng.choice(4, 'absent')
    return {'cbp': eng.bool('cbp'), 'mbf': eng.bool('mbf'),
            'nonce': None if sel in (0, 3) else eng.int('nonce', 0, 2 ** 32 - 1),
            'lifetime': None if sel in (1, 3) else eng.int('lifetime', 2 ** 32, 2 ** 64 - 1),
            'hop': None if sel in (2, 3) else eng.int('hop', 0, 255), 'hints': []}


def h_interest_fields(eng, case):
    env.symbolic_env(eng)
    if case['cfg'] != 'sigtime':
        # SignatureTime / SignatureNonce of the digest signer: keep one integer width unless they are the focus
        env.set_clock(lambda: eng.int('clock', 2 ** 32, 2 ** 63))
        env.set_nonce(lambda: eng.int('nonce32', 1, 2 ** 32 - 1), lambda: eng.int('nonce64', 2 ** 32, 2 ** 64 - 1))
    name = env.name_from_shape(eng, [(1, 1), (3, 0)])
    k = case['app']
    app = None if k is None else eng.bytes('app', k)
    kind = case['signer']
    signer = env.make_signer(eng, kind, for_interest=True, rmin=case.get('rmin', 0))
    P = _params(eng, 'absent' if case['cfg'] == 'sigtime' else case['cfg'])
    check_interest(eng, name, None, P, app, kind, signer)
    eng.reach('end')


def h_interest_names(eng, case):
    env.symbolic_env(eng)
    shape = [tuple(x) for x in case['shape']]
    name = env.name_from_shape(eng, shape)
    kind = case['signer']
    signer = env.make_signer(eng, kind, for_interest=True, rmin=case.get('rmin', 0))
    app = eng.bytes('app', 1) if case['app'] else None
    need = app is not None or signer is not None
    digest_pos = None
    if need:
        sel = eng.choice(len(shape) + 2, 'digest_pos')
        digest_pos = None if sel == len(shape) + 1 else sel
    P = {'cbp': False, 'mbf': eng.bool('mbf'), 'nonce': eng.int('nonce', 0, 2 ** 32 - 1), 'lifetime': None,
         'hop': None, 'hints': [env.name_from_shape(eng, [(1, 1)], 'h')] if case.get('hint') else []}
    check_interest(eng, name, digest_pos, P, app, kind, signer, form=case.get('form', 'list'))
    eng.reach('end')


def h_interest_payload(eng, case):
    env.symbolic_env(eng)
    name = env.name_from_shape(eng, [(1, 1)])
    kind = case['signer']
    signer = env.make_signer(eng, kind, for_interest=True)
    app = bytes(case['len'])
    P = {'cbp': False, 'mbf': False, 'nonce': eng.int('nonce', 0, 2 ** 32 - 1), 'lifetime': None, 'hop': None,
         'hints': []}
    check_interest(eng, name, None, P, app, kind, signer)
    eng.reach('end')


# ---------------------------------------------------------------------------------------------
# elastic payload: the LENGTH of Content / ApplicationParameters is a solver variable (symex/elastic.py)
# ---------------------------------------------------------------------------------------------
def _wlen(w):
    from symex.core import s_len
    return s_len(w)


def _num_list(v):
    """shortest-form TLV number written by the harness"""
    if v <= 0xFC:
        return [v]
    if v <= 0xFFFF:
        return [0xFD] + list(v.to_bytes(2, 'big'))
    return [0xFE] + list(v.to_bytes(4, 'big'))


def elastic_split(eng, wire, outer_type, payload_type, payload, label):
    """strict top-level reading of an emitted packet whose payload has symbolic length: the outer element is exact
    and in shortest form, its children tile the value exactly, the child of type ``payload_type`` has an exact,
    shortest-form length and its value region IS the payload.  Returns the surrogate packet (list of byte elements)
    in which the payload child is replaced by an empty one - everything else is checked on it by the ordinary
    reference reader - or None."""
    from symex.api import mview
    wire = mview(wire)
    total = _wlen(wire)
    try:
        t, ts, m1 = ref.rd_num(wire, 0, total)
        ln, ls, m2 = ref.rd_num(wire, ts, total)
    except (ref.RefReject, IndexError) as r:
        eng.fail(label, 'ref-reject:outer-header')
        return None
    eng.check(And(t == outer_type, m1, m2), label, sig='outer-type-or-form')
    eng.check(ts + ls + ln == total, label, sig='outer length does not match the buffer')
    off = ts + ls
    body = []
    seen_payload = 0
    guard = 0
    while off < total:
        guard += 1
        if guard > 12:
            eng.fail(label, 'too-many-children')
            return None
        try:
            et, s1, f1 = ref.rd_num(wire, off, total)
            el, s2, f2 = ref.rd_num(wire, off + s1, total)
        except (ref.RefReject, IndexError):
            eng.fail(label, 'ref-reject:child-header')
            return None
        vs = off + s1 + s2
        ve = vs + el
        eng.check(ve <= total, label, sig='child overruns the packet')
        eng.check(And(f1, f2), label, sig='child number not in shortest form')
        et = as_int(et)
        if et == payload_type:
            seen_payload += 1
            same = (wire[vs:ve] == payload)
            eng.check(same, label, sig='payload region is not the payload')
            body += _num_list(et) + [0]
        else:
            try:
                body += blist(wire[off:ve])
            except Exception:
                eng.fail(label, 'child-overlaps-payload')
                return None
        off = ve
    eng.check(off == total, label, sig='children do not tile the value')
    eng.check(seen_payload == 1, label, sig='payload element count')
    return [outer_type] + _num_list(len(body)) + body


def _elastic_env(eng, case):
    if case.get('fixed_env'):
        env.set_clock(lambda: 1700000000123)
        env.set_nonce(lambda: 0x01020304, lambda: 0x0102030405060708)
    else:
        env.symbolic_env(eng)


def h_data_elastic(eng, case):
    _elastic_env(eng, case)
    enc = _lib()
    name = env.name_from_shape(eng, [(1, 1)])
    content, n = eng.elastic('content', case.get('min', 0), case['max'])
    if eng.choice(2, 'meta?') == 0:
        meta_in = None
        meta = None
    else:
        meta_in = {'ct': env.optional_int(eng, 'ct', 0, 2 ** 64 - 1), 'fp': env.optional_int(eng, 'fp', 0, 2 ** 64 - 1),
                   'fbi': None}
        meta = enc.MetaInfo(content_type=meta_in['ct'], freshness_period=meta_in['fp'], final_block_id=None)
    kind = case['signer']
    signer = env.make_signer(eng, kind, rmin=case.get('rmin', 0), rmax=case.get('rmax'))
    try:
        wire = enc.make_data(name, meta, content, signer)
    except Exception as e:
        eng.fail('data-encode-raises', exc_sig(e), repr(e)[:200])
        return
    sur = elastic_split(eng, wire, 6, 0x15, content, 'data-ref-wellformed')
    if sur is None:
        return
    rv = ref_check_data(eng, sur, name, meta_in, b'', kind)
    if rv is None:
        return
    try:
        n2, m2, c2, sig = enc.parse_data(wire)
    except Exception as e:
        eng.fail('data-decode-raises', exc_sig(e), repr(e)[:200])
        return
    eng.check(env.names_equal(n2, name), 'data-rt-name')
    eng.check(c2 is not None and (c2 == content), 'data-rt-content')
    if meta_in is None:
        eng.check(And(m2.content_type == 0, m2.freshness_period is None, m2.final_block_id is None), 'data-rt-meta')
    else:
        for key, fld in (('ct', 'content_type'), ('fp', 'freshness_period')):
            got = getattr(m2, fld)
            if meta_in[key] is None:
                eng.check(got is None, 'data-rt-meta')
            else:
                eng.check(got is not None and got == meta_in[key], 'data-rt-meta')
        eng.check(m2.final_block_id is None, 'data-rt-meta')
    if kind == 'none':
        eng.check(sig.signature_info is None and sig.signature_value_buf is None, 'data-rt-sig')
    else:
        eng.check(sig.signature_info is not None and sig.signature_value_buf is not None, 'data-rt-sig')
        if 'sigvalue' in rv['#region']:
            _, vs, ve = rv['#region']['sigvalue']
            eng.check(_wlen(sig.signature_value_buf) == ve - vs, 'data-rt-sig')
            eng.observe('sig_len', ve - vs)
    eng.observe('payload_len', n)
    eng.observe('wire_len', _wlen(wire))
    eng.reach('end')


def h_interest_elastic(eng, case):
    _elastic_env(eng, case)
    enc = _lib()
    name = env.name_from_shape(eng, [(1, 1)])
    app, n = eng.elastic('app', case.get('min', 0), case['max'])
    kind = case['signer']
    signer = env.make_signer(eng, kind, for_interest=True, rmin=case.get('rmin', 0), rmax=case.get('rmax'))
    lifetime = env.optional_int(eng, 'lifetime', 0, 2 ** 64 - 1)
    param = enc.InterestParam(can_be_prefix=False, must_be_fresh=eng.bool('mbf'), nonce=eng.int('nonce', 0, 2 ** 32 - 1),
                              lifetime=lifetime, hop_limit=None)
    try:
        wire = enc.make_interest(name, param, app, signer)
    except Exception as e:
        eng.fail('int-encode-raises', exc_sig(e), repr(e)[:200])
        return
    sur = elastic_split(eng, wire, 5, 0x24, app, 'int-ref-wellformed')
    if sur is None:
        return
    try:
        rv = ref.parse_interest(sur)
        ok, tree = ref.strict_tree(sur, 0, len(sur), [('interest', 5, 'model', (ref.INTEREST, False))])
    except ref.RefReject as r:
        eng.fail('int-ref-wellformed', 'ref-reject:' + r.args[0])
        return
    eng.check(ok, 'int-ref-wellformed')
    rn = rv['name']
    eng.check(And(len(rn) == len(name) + 1, env.names_equal(rn[:len(name)], name), _digest_comp_ok(rn[-1])),
              'int-ref-name')
    eng.check(('lifetime' in rv) == (lifetime is not None) and (lifetime is None or rv['lifetime'] == lifetime),
              'int-ref-param')
    eng.check('nonce' in rv and rv['nonce'] == param.nonce, 'int-ref-param')
    try:
        n2, p2, a2, sig = enc.parse_interest(wire)
    except Exception as e:
        eng.fail('int-decode-raises', exc_sig(e), repr(e)[:200])
        return
    eng.check(And(len(n2) == len(name) + 1, env.names_equal(n2[:len(name)], name), _digest_comp_ok(n2[-1])),
              'int-rt-name')
    eng.check(a2 is not None and (a2 == app), 'int-rt-app')
    eng.check((p2.lifetime is None) == (lifetime is None) and (lifetime is None or p2.lifetime == lifetime),
              'int-rt-param')
    eng.check(p2.nonce == param.nonce, 'int-rt-param')
    if kind == 'none':
        eng.check(sig.signature_info is None, 'int-rt-sig')
    else:
        eng.check(sig.signature_info is not None and sig.signature_value_buf is not None, 'int-rt-sig')
    eng.observe('payload_len', n)
    eng.observe('wire_len', _wlen(wire))
    eng.reach('end')


def h_reuse(eng, case):
    """the caller keeps ONE name object (a list of encoded components) and builds several packets from it: every
    packet must round-trip to the caller's name, and the caller's object must not have been changed"""
    env.symbolic_env(eng)
    name = env.name_from_shape(eng, [tuple(x) for x in case['shape']])
    L = list(name)
    for i, step in enumerate(case['seq']):
        P = {'cbp': False, 'mbf': False, 'nonce': eng.int('nonce', 0, 2 ** 32 - 1), 'lifetime': None, 'hop': None,
             'hints': []}
        if step == 'int_param':
            # the same InterestParam object for every Interest, its fields re-assigned in between
            if 'IP' not in case:
                case = dict(case, IP=_lib().InterestParam())
            P2 = {'cbp': bool(eng.bool('cbp')), 'mbf': bool(eng.bool('mbf')), 'nonce': eng.int('nonce', 0, 2 ** 32 - 1),
                  'lifetime': env.optional_int(eng, 'lifetime', 0, 2 ** 64 - 1), 'hop': env.optional_int(eng, 'hop', 0, 255),
                  'hints': [env.name_from_shape(eng, [(1, 1)], 'h')] if eng.choice(2, 'hint?') else []}
            check_interest(eng, name, None, P2, None, 'none', None, name_obj=L, param_obj=case['IP'])
        elif step == 'data_meta':
            # the same MetaInfo object for every packet, its fields re-assigned in between (a producer of segments)
            if 'M' not in case:
                case = dict(case, M=_lib().MetaInfo())
            mi = {'ct': env.optional_int(eng, 'ct', 0, 2 ** 64 - 1), 'fp': env.optional_int(eng, 'fp', 0, 2 ** 64 - 1),
                  'fbi': [None, eng.bytes('fbi', 1)][eng.choice(2, 'fbi?')]}
            check_data(eng, name, mi, eng.bytes('c', 1), 'none', None, name_obj=L, meta_obj=case['M'])
        elif step == 'data':
            check_data(eng, name, None, eng.bytes('c', 1), 'none', None, name_obj=L)
        elif step == 'data_sig':
            check_data(eng, name, None, eng.bytes('c', 1), 'digest', env.make_signer(eng, 'digest'), name_obj=L)
        elif step == 'int_plain':
            check_interest(eng, name, None, P, None, 'none', None, name_obj=L)
        elif step == 'int_app':
            check_interest(eng, name, None, P, eng.bytes('app', 1), 'none', None, name_obj=L)
        elif step == 'int_sig':
            check_interest(eng, name, None, P, None, 'digest', env.make_signer(eng, 'digest', for_interest=True),
                           name_obj=L)
        else:
            raise AssertionError(step)
        eng.check(And(len(L) == len(name), env.names_equal(L, name) if len(L) == len(name) else False),
                  'caller-name-unchanged', {'step': i, 'len': len(L)})
    eng.reach('end')


HARNESSES = {'reuse': h_reuse, 'data_elastic': h_data_elastic, 'interest_elastic': h_interest_elastic, 'data_fields': h_data_fields, 'data_names': h_data_names, 'data_payload': h_data_payload,
             'interest_fields': h_interest_fields, 'interest_names': h_interest_names,
             'interest_payload': h_interest_payload}


def _shapes(maxn, alphabet):
    out = []
    for n in range(maxn + 1):
        for s in itertools.product(alphabet, repeat=n):
            out.append([list(x) for x in s])
    return out


def cases(tier, seed):
    cs = []
    quick = tier == 'quick'
    # payload LENGTH as a solver variable (elastic buffers): every length in the range is decided at once
    if quick:
        for sk in ('none', 'digest', 'hmac', 'null'):
            cs.append(('data_elastic', {'signer': sk, 'max': 70000, 'fixed_env': True}))
        cs.append(('data_elastic', {'signer': 'ecdsa', 'max': 70000, 'rmin': 70, 'fixed_env': True}))
        for sk in ('none', 'digest'):
            cs.append(('interest_elastic', {'signer': sk, 'max': 70000, 'fixed_env': True}))
        cs.append(('interest_elastic', {'signer': 'ecdsa', 'max': 70000, 'rmin': 71, 'fixed_env': True}))
    else:
        for h in ('data_elastic', 'interest_elastic'):
            for sk in env.SIGNER_KINDS:
                if sk == 'ecdsa':
                    for lo in range(0, 73, 3):
                        cs.append((h, {'signer': sk, 'max': 2 ** 20, 'rmin': lo, 'rmax': min(lo + 2, 72),
                                       'fixed_env': True}))
                else:
                    cs.append((h, {'signer': sk, 'max': 2 ** 20}))
    # one caller-owned name object used for several packets in a row
    for sh in ([[1, 1]], [[1, 0], [3, 1]], []):
        for seq in (['int_app', 'data'], ['int_app', 'int_plain'], ['int_sig', 'data_sig'], ['data', 'int_app', 'int_app'],
                    ['int_sig', 'int_plain', 'data']):
            cs.append(('reuse', {'shape': sh, 'seq': seq}))
    cs.append(('reuse', {'shape': [[1, 1]], 'seq': ['data_meta', 'data_meta']}, {'weight': 30, 'split_depth': 4}))
    cs.append(('reuse', {'shape': [[1, 1]], 'seq': ['int_param', 'int_param']}, {'weight': 30, 'split_depth': 4}))
    contents = [None, 0, 1, 2, 4] if quick else [None, 0, 1, 2, 3, 4, 6, 8]
    for sk in env.SIGNER_KINDS:
        for k in contents:
            if sk == 'ecdsa':
                # the real signature length r multiplies every path by 73: full r range with one MetaInfo shape,
                # all MetaInfo shapes with r in [68,72]
                cs.append(('data_fields', {'signer': sk, 'content': k, 'fbi': [None, 0, 1, 3], 'rmin': 68}))
                cs.append(('data_fields', {'signer': sk, 'content': k, 'fbi': [1], 'meta': 'one'}))
            else:
                cs.append(('data_fields', {'signer': sk, 'content': k, 'fbi': [None, 0, 1, 3]}))
    shapes = _shapes(3 if quick else 4, [(1, 0), (1, 2), (3, 1)])
    for sh in shapes:
        for sk in ('none', 'ecdsa'):
            cs.append(('data_names', {'shape': sh, 'signer': sk, 'rmin': 69}))
    # every accepted representation of a name (NonStrictName): tuple, one-shot iterator, generator, encoded, memoryview
    for form in env.NAME_FORMS[1:]:
        for sh in ([], [[1, 1]], [[1, 2], [3, 1]]):
            cs.append(('data_names', {'shape': sh, 'signer': 'none', 'form': form}))
            cs.append(('interest_names', {'shape': sh, 'signer': 'none', 'app': False, 'form': form, 'hint': True}))
        cs.append(('data_names', {'shape': [[1, 1]], 'signer': 'ecdsa', 'rmin': 70, 'form': form}))
        cs.append(('interest_names', {'shape': [[1, 1]], 'signer': 'digest', 'app': True, 'form': form, 'rmin': 70}))
    # the appended ParametersSha256Digest component (34 bytes) itself moves the Name across the 253 boundary
    for n in (range(212, 258) if quick else range(150, 300)):
        for sk in ('none', 'ecdsa') if quick else ('none', 'ecdsa', 'digest', 'hmac'):
            cs.append(('interest_names', {'shape': [['L', n]], 'signer': sk, 'app': True, 'rmin': 69}))
    # long names: the Name element itself (and a component) with a 3-byte length, alone and next to symbolic components
    for sh in ([['L', 260]], [[1, 1], ['L', 248]], [['L', 251], [1, 1]], [[1, 2], ['L', 300], [3, 1]]):
        for sk in ('none', 'ecdsa'):
            cs.append(('data_names', {'shape': sh, 'signer': sk, 'rmin': 69}))
        for sk, app in (('none', False), ('ecdsa', True), ('digest', False)):
            cs.append(('interest_names', {'shape': sh, 'signer': sk, 'app': app, 'rmin': 69}))
    if quick:
        lens = list(range(120, 261)) + list(range(65410, 65541, 2))
    else:
        lens = list(range(0, 401)) + list(range(65400, 65701))
    for n in lens:
        for sk in ('none', 'ecdsa'):
            cs.append(('data_payload', {'len': n, 'signer': sk}))
    apps = [None, 0, 1, 3] if quick else [None, 0, 1, 2, 3, 5, 8]
    for sk in ('none', 'digest', 'hmac', 'ecdsa', 'rsa', 'ed25519', 'null'):
        for k in apps:
            for cfg in ('full', 'absent') + (('sigtime',) if sk == 'digest' else ()):
                cs.append(('interest_fields', {'signer': sk, 'app': k, 'rmin': 70, 'cfg': cfg}))
    for sh in _shapes(2 if quick else 3, [(1, 0), (1, 2), (3, 1)]):
        for sk, app in (('none', False), ('none', True), ('ecdsa', True), ('digest', False)):
            cs.append(('interest_names', {'shape': sh, 'signer': sk, 'app': app, 'rmin': 69}))
    ilens = list(range(110, 260)) + list(range(65390, 65540, 2)) if quick else \
        list(range(0, 400)) + list(range(65300, 65700))
    for n in ilens:
        for sk in ('none', 'ecdsa'):
            cs.append(('interest_payload', {'len': n, 'signer': sk}))
    return cs
