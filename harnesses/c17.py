# C17 -- prefix registration speaks the forwarder management protocol correctly.
# Real code executed symbolically: NfdRegister.register / unregister, appv2.register / unregister / route / main_loop /
# express, legacy app.register / unregister / route / main_loop / express_interest, nfd_mgmt.make_command /
# make_command_v2 / parse_response, ControlParameters / ControlResponse codec, DigestSha256Signer, make_interest.
import asyncio
from symex import vloop, crypto
from symex.api import And, Or, Not, Implies, Iff, blist, bwrap, beq, exc_sig, as_int, tobytes
from symex.core import SInt
from . import env, appenv, ref, modelgen as mg

PROPERTY = 'C17'
INFO = {
    'explanation': 'C17: K register/unregister calls are started concurrently against a stub forwarder whose answer to '
                   'each command is chosen by the engine (ControlResponse with symbolic status code and body, Nack with '
                   'symbolic reason, silence, Data that fails validation, garbage content).  EVERY clock reading is a fresh '
                   'solver variable, constrained only to be non-decreasing and to advance with the virtual time, so '
                   '"same clock reading" and "clock ticks between two reads" are both explored.  Command Interests are '
                   'decoded from the face output with the reference reader.',
    'bounds': {'quick': {'concurrent_calls': '1..2 (v2), 1..2 (legacy)', 'status_code': '[0,2^64)',
                         'clock': 'each reading in [virtual ms, virtual ms + 2], non-decreasing',
                         'garbage_content': '0..4 symbolic bytes'},
               'thorough': {'concurrent_calls': '1..3'}},
    'outside': ['more concurrent calls than the bound', 'forwarder replies arriving for the wrong command'],
    'assumptions': ['ideal hash for the parameters digest and DigestSha256 signature', 'virtual-time loop'],
}
MANDATORY = {'command': ['command-carries-parameters'], 'reg_v2': ['one-command-per-call', 'success-iff-200'], 'response': ['response-roundtrip']}

CP_SCHEMA = None
CLOCK_LOG = []          # (function that read the clock, reading, virtual instant) of the current path


def _jitter_clock(eng, loop, jitter=2):
    """every reading: fresh variable, >= previous reading, within [now_ms, now_ms + jitter]"""
    st = {'last': None}
    CLOCK_LOG.clear()

    def ts():
        import sys
        base = loop.now_ms(eng)
        r = eng.int('clock', 0, 2 ** 50)
        who = sys._getframe(2).f_code.co_name
        CLOCK_LOG.append((who, r, loop._now.n))
        eng.assume(And(r >= base + 1000000, r <= base + 1000000 + jitter), check=False)
        if st['last'] is not None:
            # (satisfiable: the previous reading was <= its own base + jitter <= this base + jitter)
            eng.assume(r >= st['last'], check=False)
        st['last'] = r
        return r
    env.set_clock(ts)


def decode_command(eng, wire, front):
    """reference decoding of a command Interest: returns dict(name comps, prefix, sig_time, digest_ok, ...)"""
    w = blist(wire)
    rv = ref.parse_interest(w)
    comps = rv['name']
    out = {'rv': rv, 'comps': comps}
    # /localhost/nfd/rib/<verb>/<ControlParameters>
    out['verb'] = bytes(comps[3][2:]) if len(comps) > 3 else None
    out['head'] = [bytes(c) for c in comps[:3]]
    cp = comps[4]
    # component of type 8 whose value is the ControlParameters element (0x68)
    body = cp[2:] if cp[1] <= 0xFC else cp[4:]
    o = ref.outer(body, 0x68)
    vals = ref.decode_model(body, o.vs, o.ve, [('name', 7, 'name', None)], True)
    out['prefix'] = vals.get('name')
    if front == 'v2':
        si = rv.get('signature_info') or {}
        out['sig_time'] = si.get('signature_time')
        out['sig_type'] = si.get('signature_type')
        # parameters digest: ideal hash of ApplicationParameters .. end
        ps = rv['#region'].get('params_start')
        dig = None
        for c in comps:
            if len(c) == 34 and c[0] == 2:
                dig = c[2:]
        if ps is not None and dig is not None:
            exp = crypto.ideal('sha256', w[ps:])
            out['digest_ok'] = beq(dig, exp)
        else:
            out['digest_ok'] = False
        out['has_params'] = 'application_parameters' in rv
    else:
        # legacy command: four trailing components: timestamp, nonce, SignatureInfo, SignatureValue
        out['n_comps'] = len(comps)
        if len(comps) >= 9:
            tsc = comps[5]
            v = 0
            for x in tsc[2:]:
                v = v * 256 + x
            out['sig_time'] = v
            # SignatureInfo component: 08 LL 16 03 1b 01 00 ; SignatureValue component: 08 LL 17 20 <sha256 of every
            # preceding name component, each as its full TLV>
            try:
                si = ref.rd_seq(comps[7], 0, len(comps[7]))[0]
                si_in = ref.rd_seq(comps[7], si.vs, si.ve)[0]
                st = ref.decode_model(comps[7], si_in.vs, si_in.ve, ref.SIGINFO, True)
                sv = ref.rd_seq(comps[8], 0, len(comps[8]))[0]
                sv_in = ref.rd_seq(comps[8], sv.vs, sv.ve)[0]
                signed = []
                for c in comps[:8]:
                    signed += list(c)
                exp = crypto.ideal('sha256', signed)
                out['legacy_sig_ok'] = And(si_in.typ == 0x16, st.get('signature_type') == 0, sv_in.typ == 0x17,
                                           beq(comps[8][sv_in.vs:sv_in.ve], exp))
            except (ref.RefReject, IndexError):
                out['legacy_sig_ok'] = False
    return out


async def _wait_send(face):
    """suspend until the face is asked to send something (no busy polling: virtual time must be able to advance)"""
    fut = asyncio.get_running_loop().create_future()
    orig = face.send

    def send(data):
        face.send = orig
        orig(data)
        if not fut.done():
            fut.set_result(None)
    face.send = send
    await fut


def make_response(eng, kind, cmd_name, front):
    """forwarder reply bytes (or None for silence) for a command with the given final name"""
    import ndn.encoding as enc
    from ndn.app_support import nfd_mgmt as m
    if kind == 'silence':
        return None, None
    if kind == 'nack':
        return 'nack', eng.int('nack_reason', 0, 2 ** 64 - 1)
    if kind in ('status', 'ok'):
        cr = m.ControlResponse()
        cr.status_code = 200 if kind == 'ok' else eng.int('status', 0, 2 ** 64 - 1)
        cr.status_text = 'text'
        cr.body = m.ControlParametersValue()
        cr.body.face_id = eng.int('face_id', 0, 2 ** 64 - 1) if kind == 'status' else 1
        content = bwrap([0x65] + _len_bytes(len(cr.encode())) + blist(cr.encode()))
        status = cr.status_code
    elif kind == 'garbage':
        n = eng.choice(4, 'garbage_len')
        content = eng.bytes('garbage', n)
        status = None
    elif kind == 'badsig':
        content = b'\x65\x03\x66\x01\xc8'
        status = 200
    signer = __import__('ndn.security', fromlist=['x']).DigestSha256Signer()
    data = enc.make_data(cmd_name, enc.MetaInfo(freshness_period=1000), content, signer)
    if kind == 'badsig':
        d = list(blist(data))
        d[-1] = (d[-1] ^ 1) if isinstance(d[-1], int) else d[-1] + 1
        data = bwrap(d)
    return tobytes(data), status


def _len_bytes(n):
    return [n] if n <= 0xFC else [0xFD] + list(n.to_bytes(2, 'big'))


def _prefix(eng, spec, i):
    """a prefix as component list: URI string, or 'SYM' = one generic component with one symbolic value byte"""
    import ndn.encoding as enc
    if spec == 'LONG':
        # a long prefix: the command name crosses 253 bytes (3-byte length of the Name element)
        return [env.concrete_component(8, bytes((j * 5 + 2) & 0x7F for j in range(230)))]
    if spec in ('SYM', 'SYM4'):
        b = eng.bytes('pfx%d' % i, 1)
        if spec == 'SYM4':
            # registration keeps the prefix as a dictionary key (hashed: one path per value): four boundary values
            eng.assume(Or(b[0] == 0, b[0] == 0x2f, b[0] == 0x61, b[0] == 0xff))
        return [bwrap([8, 1] + blist(b))]
    return [bytes(c) for c in enc.Name.from_str(spec)]


def scenario(eng, case, front):
    import ndn.encoding as enc
    import ndn.types as types
    K = case['K']
    kinds = case['kinds']
    ops = case['ops']                    # 'register' / 'unregister' per call
    prefixes = [_prefix(eng, p, i) for i, p in enumerate(case.get('prefixes') or ['/px%d' % i for i in range(K)])]
    state = {'outstanding': 0, 'max_out': 0, 'replies': 0}
    results = [None] * K
    cmds = []
    if front == 'v2':
        from ndn.transport.nfd_registerer import NfdRegister
        app, face = appenv.make_app('v2', registerer=NfdRegister())
    else:
        app, face = appenv.make_app('v1')
        if ops and any(o == 'unregister' for o in ops):
            for p in prefixes:
                app.set_interest_filter(p, lambda *a: None)
    env.set_nonce(lambda: eng.int('nonce32', 1, 2 ** 32 - 1), lambda: eng.int('nonce64', 2 ** 32, 2 ** 64 - 1))
    reply_kind = {}

    async def forwarder(loop):
        """answers each command Interest a little later"""
        seen = 0
        while True:
            while seen >= len(face.out):
                await _wait_send(face)
            while seen < len(face.out):
                wire = face.out[seen]
                seen += 1
                state['outstanding'] += 1
                state['max_out'] = max(state['max_out'], state['outstanding'])
                idx = len(cmds)
                try:
                    cmd = decode_command(eng, wire, front)
                except (ref.RefReject, IndexError, KeyError) as e:
                    eng.fail('command-well-formed', 'undecodable-command:%r' % (e.args[:1],))
                    cmd = None
                cmds.append(cmd)
                km = kinds[min(idx, len(kinds) - 1)]
                kind = km[eng.choice(len(km), 'reply_kind')]
                reply_kind[idx] = kind
                final_name = enc.parse_interest(wire)[0]
                rep, status = make_response(eng, kind, final_name, front)
                reply_kind[idx] = (kind, status)
                delay = eng.int('fwd_delay', 0, 5)
                await asyncio.sleep(delay / 1000.0)
                # commands handed to the face while this one is still unanswered are outstanding together with it
                state['max_out'] = max(state['max_out'], len(face.out) - idx)
                try:
                    if rep == 'nack':
                        await app._receive(0x64, enc.make_network_nack(wire, status))
                        reply_kind[idx] = ('nack', None)
                    elif rep is not None:
                        await app._receive(6, rep)
                except Exception as e:
                    eng.fail('receive-returns', exc_sig(e), repr(e)[:100])
                if rep is not None:
                    state['outstanding'] -= 1
                    state['silent'] = False
                else:
                    state['silent_idx'] = idx

    async def call(i):
        try:
            if front == 'v2':
                if ops[i] == 'register':
                    results[i] = ('ret', await app.register(prefixes[i]))
                else:
                    results[i] = ('ret', await app.unregister(prefixes[i]))
            else:
                if ops[i] == 'register':
                    results[i] = ('ret', await app.register(prefixes[i], None))
                else:
                    results[i] = ('ret', await app.unregister(prefixes[i]))
        except Exception as e:
            results[i] = ('exc', exc_sig(e))
        # a call that returned after silence frees the slot
        if state['outstanding'] > 0 and reply_kind.get(len(cmds) - 1, (None,))[0] == 'silence':
            state['outstanding'] -= 1

    async def main(loop):
        _jitter_clock(eng, loop)
        ml = asyncio.ensure_future(app.main_loop())
        await asyncio.sleep(0)
        fw = asyncio.ensure_future(forwarder(loop))
        ts = [asyncio.ensure_future(call(i)) for i in range(K)]
        for t in ts:
            await t
        fw.cancel()
        app.shutdown()
        try:
            await ml
        except Exception:
            pass
    loop, r, err = appenv.run(eng, main, max_steps=20000)
    if err == 'deadlock':
        eng.fail('calls-return', 'deadlock')
        return
    # ---- checks ----
    eng.check(len(cmds) == K, 'one-command-per-call', {'commands': len(cmds), 'calls': K},
              sig='%d-commands-for-%d-calls' % (len(cmds), K))
    eng.check(state['max_out'] <= 1, 'one-command-at-a-time', {'max_outstanding': state['max_out']})
    served = {}
    for idx, cmd in enumerate(cmds):
        if cmd is None:
            continue
        eng.check(cmd['head'] == [b'\x08\x09localhost', b'\x08\x03nfd', b'\x08\x03rib'], 'command-name')
        pfx = cmd['prefix']
        which = None
        for i, p in enumerate(prefixes):
            if pfx is not None and env.names_equal(pfx, p):
                which = i
        eng.check(which is not None and which not in served, 'command-names-the-prefix', {'idx': idx})
        if which is not None:
            served[which] = idx
            eng.check(cmd['verb'] == ops[which].encode(), 'command-name')
        if front == 'v2':
            eng.check(And(cmd['has_params'], cmd['sig_type'] == 0, cmd['sig_time'] is not None), 'signed-interest-format')
            eng.check(cmd['digest_ok'], 'parameters-digest-valid')
        else:
            eng.check(cmd['n_comps'] == 9, 'legacy-command-format', {'components': cmd['n_comps']})
            eng.check(cmd.get('legacy_sig_ok', False), 'legacy-command-format', sig='digest-signature-over-the-name-components')
    # for the known-finding classification: was the freshness guard of each command evaluated in the same loop
    # instant as its signing (then only a clock tick BETWEEN the two reads can defeat it - the recorded finding), or
    # were they separated by an await (then the guard does not protect the command at all - a different defect)?
    guard_adjacent = []
    last_guard = None
    for who, r, now in CLOCK_LOG:
        if who in ('register', 'unregister'):
            last_guard = now
        elif who == 'write_signature_info':
            if last_guard is None:
                guard_adjacent.append(None)
            else:
                same = (last_guard == now) if isinstance(last_guard, int) and isinstance(now, int) else \
                    bool(__import__('symex.core', fromlist=['SBool']).SBool(last_guard == now))
                guard_adjacent.append(same)
            last_guard = None
    for idx in range(1, len(cmds)):
        a, b = cmds[idx - 1], cmds[idx]
        if a is None or b is None or a.get('sig_time') is None or b.get('sig_time') is None:
            continue
        adj = guard_adjacent[idx] if front == 'v2' and idx < len(guard_adjacent) else True
        eng.check(b['sig_time'] > a['sig_time'], 'timestamps-strictly-increase', None,
                  sig='equal-or-decreasing-timestamps:%s%s' % (front, '' if adj else ':guard-separated-from-signing'))
    for i in range(K):
        res = results[i]
        idx = served.get(i)
        if res is None:
            eng.fail('calls-return', 'no-result')
            continue
        if res[0] == 'exc':
            kind = reply_kind.get(idx, (None,))[0] if idx is not None else None
            eng.fail('failure-reported-without-raising', res[1], {'reply': kind, 'op': ops[i]},)
            continue
        if idx is None:
            continue
        kind, status = reply_kind[idx]
        if kind in ('status', 'ok', 'badsig'):
            if kind == 'badsig':
                exp = False if front == 'v1' else (status == 200)
            else:
                exp = status == 200
            from symex.core import SBool
            rv = res[1]
            if not isinstance(rv, (bool, SBool)):
                eng.fail('success-iff-200', 'non-boolean-result', {'returned': repr(rv)})
            else:
                eng.check(Iff(rv, exp), 'success-iff-200', {'op': ops[i], 'reply': kind},
                          sig='%s:%s-wrong-result-for-%s' % (front, ops[i], kind))
        else:
            eng.check(res[1] is False, 'success-iff-200', {'op': ops[i], 'returned': repr(res[1]), 'reply': kind},
                      sig='%s:%s-returned-%r-after-%s' % (front, ops[i], res[1], kind))
    if loop.errors:
        exc = loop.errors[0].get('exception')
        eng.fail('no-unhandled-error-in-loop', exc_sig(exc) if exc is not None else '?')
    eng.observe('results', [r[0] if r else None for r in results])
    eng.reach('end')


def h_reg_v2(eng, case):
    scenario(eng, case, 'v2')


def h_reg_v1(eng, case):
    scenario(eng, case, 'v1')


def h_autoreg(eng, case):
    """routes declared before connecting are registered exactly once per connection"""
    import ndn.encoding as enc
    front = case['front']
    n = case['routes']
    if front == 'v2':
        from ndn.transport.nfd_registerer import NfdRegister
        app, face = appenv.make_app('v2', registerer=NfdRegister())
    else:
        app, face = appenv.make_app('v1')
    face.running = False
    env.set_nonce(lambda: eng.int('nonce32', 1, 2 ** 32 - 1), lambda: eng.int('nonce64', 2 ** 32, 2 ** 64 - 1))
    for i in range(n):
        if front == 'v2':
            app.route('/r%d' % i)(lambda name, ap, reply, ctx: None)
        else:
            app.route('/r%d' % i)(lambda name, param, ap: None)
    cmds = []

    async def forwarder():
        seen = 0
        while True:
            while seen >= len(face.out):
                await _wait_send(face)
            while seen < len(face.out):
                wire = face.out[seen]
                seen += 1
                cmds.append(decode_command(eng, wire, front))
                rep, st = make_response(eng, 'ok', enc.parse_interest(wire)[0], front)
                await app._receive(6, rep)

    per_conn = []
    problems = []

    async def main(loop):
        _jitter_clock(eng, loop)
        fw = asyncio.ensure_future(forwarder())
        for k in range(case.get('connections', 1)):
            n0 = len(cmds)
            ml = asyncio.ensure_future(app.main_loop())
            await vloop.sleep_until(loop, loop.at_ms(3000 * (k + 1)))
            app.shutdown()
            try:
                await ml
            except Exception as e:
                problems.append((k, exc_sig(e)))
            per_conn.append(cmds[n0:])
            for _ in range(3):
                await asyncio.sleep(0)
        fw.cancel()
    loop, r, err = appenv.run(eng, main, max_steps=40000)
    for k, sig in problems:
        eng.fail('routes-registered-once', 'connection-%d-main-loop-raises:%s' % (min(k, 1), sig))
    exp = sorted(b'\x08\x02r%d' % i for i in range(n))
    for k, cc in enumerate(per_conn):
        got = sorted(bytes(bwrap(c)) if not isinstance(c, bytes) else c for cmd in cc for c in (cmd['prefix'] or [])[:1])
        eng.check(got == exp, 'routes-registered-once', {'connection': k, 'got': repr(got), 'expected': repr(exp)},
                  sig='connection-%d' % min(k, 1))
    eng.reach('end')


def _open_integers(schema):
    """the value domain of the numeric control parameters comes from the management protocol, not from the code under
    test: FaceId, Origin, Cost, Flags, ExpirationPeriod, Mask, Capacity, Count, Mtu are non-negative integers of any
    value, whatever type the field declaration happens to convert them to"""
    out = []
    for name, t, kind, arg in schema:
        if kind == 'uint' and name in CP_UINTS and arg.get('enum') is not None:
            arg = dict(arg, enum=None)
        elif kind == 'model':
            arg = (_open_integers(arg[0]),) + tuple(arg[1:])
        out.append((name, t, kind, arg))
    return out


def h_response(eng, case):
    """parse_response(encode(r)) returns the fields that were encoded"""
    from ndn.app_support import nfd_mgmt as m
    cls = m.ControlResponse
    schema = _open_integers(mg.schema_of(cls))
    plan = mg.plans(schema)[case['plan']]
    vals = mg.make_values(eng, schema, plan)
    obj = mg.build(cls, schema, vals)
    try:
        inner = obj.encode()
        wire = bwrap([0x65] + _len_bytes(len(inner)) + blist(inner))
        got = m.parse_response(wire)
    except Exception as e:
        eng.fail('response-roundtrip', exc_sig(e), repr(e)[:120])
        return
    eng.check(_same(got.get('status_code'), vals.get('status_code')), 'response-roundtrip', sig='status_code')
    eng.check(_same(got.get('status_text'), vals.get('status_text')), 'response-roundtrip', sig='status_text')
    body = vals.get('body') or {}
    for name, t, kind, arg in mg.schema_of(m.ControlParametersValue):
        if kind == 'model':
            continue
        exp = body.get(name)
        g = got.get(name)
        if hasattr(g, 'value') and not isinstance(g, (int, SInt, bytes, str)):
            g = g.value
        if kind == 'name':
            from . import env as _e
            eng.check((g is None and exp is None) or (g is not None and exp is not None and _e.names_equal(g, exp)),
                      'response-roundtrip', sig=name)
        else:
            eng.check(_same(g, exp), 'response-roundtrip', sig=name)
    eng.reach('end')


CP_UINTS = ['face_id', 'origin', 'cost', 'flags', 'expiration_period', 'mask', 'capacity', 'count', 'mtu']


def h_command(eng, case):
    """make_command_v2 / make_command: every control parameter handed in is in the command, with its value"""
    from ndn.app_support import nfd_mgmt as m
    import ndn.encoding as enc
    schema = mg.schema_of(m.ControlParametersValue)
    kwargs = {}
    shape = case['name']
    if shape is not None:
        kwargs['name'] = [bwrap([8, k] + blist(eng.bytes('n%d' % i, k))) for i, k in enumerate(shape)]
    for f in case['fields']:
        kwargs[f] = eng.int(f, 0, 2 ** 64 - 1)
    if case.get('uri'):
        kwargs['uri'] = mg.TEXTS[eng.choice(len(mg.TEXTS), 'uri')]
    if case.get('strategy'):
        kwargs['strategy'] = [bwrap([8, 1] + blist(eng.bytes('s', 1)))]
    env.set_clock(lambda: eng.int('clock', 0, 2 ** 63))
    env.set_nonce(lambda: eng.int('nonce32', 1, 2 ** 32 - 1), lambda: eng.int('nonce64', 2 ** 32, 2 ** 64 - 1))
    try:
        if case['legacy']:
            name = m.make_command(case['module'], case['verb'], **kwargs)
        else:
            name = m.make_command_v2(case['module'], case['verb'], **kwargs)
    except Exception as e:
        eng.fail('command-carries-parameters', exc_sig(e), repr(e)[:120])
        return
    eng.check(len(name) == (9 if case['legacy'] else 5), 'command-name', {'components': len(name)})
    head = [bytes(c) for c in enc.Name.from_str('/localhost/nfd/%s/%s' % (case['module'], case['verb']))]
    eng.check(env.names_equal(list(name[:4]), head), 'command-name')
    cp = blist(name[4])
    try:
        c = ref.rd_seq(cp, 0, len(cp))[0]
        body = cp[c.vs:c.ve]
        o = ref.outer(body, 0x68)
        vals = ref.decode_model(body, o.vs, o.ve, mg.ref_schema(schema), True)
    except (ref.RefReject, IndexError) as e:
        eng.fail('command-carries-parameters', 'undecodable-parameters:%r' % (e.args[:1],))
        return
    for k, v in kwargs.items():
        g = vals.get(k)
        if k == 'name':
            eng.check(g is not None and env.names_equal(g, v), 'command-carries-parameters', sig='name')
        elif k == 'strategy':
            eng.check(g is not None and g.get('name') is not None and env.names_equal(g['name'], v),
                      'command-carries-parameters', sig='strategy')
        elif k == 'uri':
            eng.check(g is not None and (g == v if isinstance(g, str) else beq(g, v.encode())), 'command-carries-parameters',
                      sig='uri')
        else:
            eng.check(g is not None and g == v, 'command-carries-parameters', {'field': k}, sig=k)
    # (parameters the caller did not give are not forbidden by the statement: observed, not checked)
    eng.observe('extra', sorted(k for k in vals if not k.startswith('#') and k not in kwargs))
    eng.observe('cp', cp)
    eng.reach('end')


def _same(a, b):
    if a is None or b is None:
        return a is None and b is None
    if isinstance(a, (bytes, bytearray, memoryview)) or isinstance(b, (bytes, bytearray, memoryview)):
        return beq(a, b)
    return a == b


HARNESSES = {'command': h_command, 'reg_v2': h_reg_v2, 'reg_v1': h_reg_v1, 'autoreg': h_autoreg, 'response': h_response}

ALL = ['ok', 'status', 'nack', 'silence', 'garbage', 'badsig']


def cases(tier, seed):
    cs = []
    quick = tier == 'quick'
    for op in ('register', 'unregister'):
        cs.append(('reg_v2', {'K': 1, 'ops': [op], 'kinds': [ALL]}, {'weight': 30, 'split_depth': 3}))
        # the legacy command carries timestamp, nonce and signature as (symbolic) NAME components: every table
        # lookup forks, so the reply menu is smaller there
        cs.append(('reg_v1', {'K': 1, 'ops': [op], 'kinds': [ALL]},
                   {'weight': 60, 'split_depth': 3}))
    for ops in (['register', 'register'], ['register', 'unregister'], ['unregister', 'unregister']):
        cs.append(('reg_v2', {'K': 2, 'ops': ops, 'kinds': [['ok', 'silence'], ['ok']] if quick else
                   [['ok', 'nack', 'silence'], ['ok', 'status']]}, {'weight': 60, 'split_depth': 4}))
    cs.append(('reg_v2', {'K': 3, 'ops': ['register', 'unregister', 'register'], 'kinds': [['ok'], ['ok'], ['ok']]},
               {'weight': 80, 'split_depth': 5}))
    cs.append(('reg_v1', {'K': 2, 'ops': ['register', 'register'], 'kinds': [['ok', 'silence'], ['ok']]},
               {'weight': 60, 'split_depth': 4}))
    cs.append(('reg_v1', {'K': 2, 'ops': ['register', 'unregister'], 'kinds': [['ok'], ['ok']]},
               {'weight': 60, 'split_depth': 4}))
    if not quick:
        cs.append(('reg_v1', {'K': 2, 'ops': ['register', 'unregister'], 'kinds': [['ok', 'silence'], ['ok', 'status']]},
                   {'weight': 200, 'split_depth': 4}))
        cs.append(('reg_v2', {'K': 3, 'ops': ['register'] * 3, 'kinds': [['ok', 'nack'], ['ok', 'silence'], ['ok']]},
                   {'weight': 200, 'split_depth': 5}))
    # all prefixes: the root prefix, a zero-length component, one symbolic component (single call, forwarder says ok / 400)
    for pf in ('/', 'SYM', '/a/b/c', 'LONG'):
        for op in ('register', 'unregister'):
            cs.append(('reg_v2', {'K': 1, 'ops': [op], 'kinds': [['ok', 'status']],
                                  'prefixes': ['SYM4' if pf == 'SYM' and op == 'register' else pf]}, {'weight': 10}))
            if pf != 'SYM':
                cs.append(('reg_v1', {'K': 1, 'ops': [op], 'kinds': [['ok']], 'prefixes': [pf]}, {'weight': 30}))
    # the command builder itself, for all values of the control parameters
    for legacy in (False, True):
        for name in (None, [], [1], [0, 2]):
            for fields in ([], ['face_id'], ['origin', 'cost'], ['flags', 'expiration_period'], ['mask', 'capacity', 'count', 'mtu']):
                if legacy and (len(fields) > 2 or name == [0, 2]):
                    continue
                cs.append(('command', {'legacy': legacy, 'module': 'rib', 'verb': 'register', 'name': name, 'fields': fields}))
        cs.append(('command', {'legacy': legacy, 'module': 'faces', 'verb': 'create', 'name': None, 'fields': ['face_persistency'],
                               'uri': True}))
        cs.append(('command', {'legacy': legacy, 'module': 'strategy-choice', 'verb': 'set', 'name': [1], 'fields': [],
                               'strategy': True}))
    for front in ('v2', 'v1'):
        # the same application object connected twice: the declared routes are registered again
        cs.append(('autoreg', {'front': front, 'routes': 1, 'connections': 2}, {'weight': 20 if front == 'v2' else 200,
                                                                                'split_depth': 4}))
    for front in ('v2', 'v1'):
        for n in (1, 2):
            cs.append(('autoreg', {'front': front, 'routes': n}, {'weight': 10 if front == 'v2' else 200,
                                                                   'split_depth': 4 if n == 2 else None}))
    from ndn.app_support import nfd_mgmt as m
    np = len(mg.plans(mg.schema_of(m.ControlResponse)))
    for p in range(np):
        cs.append(('response', {'plan': p}))
    return cs
