# Application-level environment for the harnesses of C03-C06, C10, C14, C17-C19: stub face, stub
# registerer, both front-ends on the virtual-time loop, clock stub tied to the loop.
import asyncio
from symex import core, vloop
from symex.api import And, Or, Not, blist, bwrap, beq, exc_sig
from . import env

_CLS = {}


def classes():
    if not _CLS:
        from ndn.transport.face import Face
        from ndn.transport.prefix_registerer import PrefixRegisterer

        class StubFace(Face):
            def __init__(self, local=True):
                super().__init__()
                self.running = True
                self.out = []
                self.local = local
                self.shut = 0

            async def open(self):
                self.running = True

            def shutdown(self):
                self.running = False
                self.shut += 1
                st = getattr(self, "_stop", None)
                if st is not None and not st.done():
                    st.set_result(None)

            def send(self, data):
                self.out.append(data)

            async def run(self):
                self._stop = asyncio.get_running_loop().create_future()
                await self._stop

            def isLocalFace(self):
                return self.local

        class NoReg(PrefixRegisterer):
            def __init__(self):
                super().__init__()
                self.calls = []

            async def register(self, name):
                self.calls.append(('register', name))
                return True

            async def unregister(self, name):
                self.calls.append(('unregister', name))
                return True
        _CLS['face'] = StubFace
        _CLS['noreg'] = NoReg
    return _CLS


def make_app(front, registerer=None):
    """front: 'v2' (ndn.appv2) or 'v1' (ndn.app); returns (app, face)"""
    c = classes()
    face = c['face']()
    if front == 'v2':
        import ndn.appv2 as appv2
        app = appv2.NDNApp(face=face, registerer=registerer or c['noreg']())
    else:
        import ndn.app as app1
        app = app1.NDNApp(face=face, keychain=object())
    return app, face


def loop_clock(eng, loop, t0=0):
    """utils.timestamp() = t0 + floor(virtual now in ms)"""
    def ts():
        return loop.now_ms(eng) + t0
    env.set_clock(ts)


def run(eng, main, max_steps=4000, t0=0):
    """run an async scenario ``main(loop)`` on a fresh virtual loop with the clock stub installed.
    returns (loop, result, error) where error is None, 'deadlock' or an exception"""
    holder = {}

    async def wrapper(loop):
        holder['loop'] = loop
        loop_clock(eng, loop, t0)
        return await main(loop)
    try:
        loop, res = vloop.run(wrapper, max_steps)
        return loop, res, None
    except vloop.Deadlock:
        return holder.get('loop'), None, 'deadlock'


def outcome_of(exc_or_result, types):
    pass
