# Environment stubs shared by the harnesses (both modes): clock, nonces, signers, name builders.
import sys
from symex import core, crypto
from symex.api import blist, bwrap, And, Or, Not, as_int

_CUR = {}
_installed = False


def _tramp(key):
    def f(*a, **k):
        return _CUR[key](*a, **k)
    f.__name__ = 'stub_' + key
    return f


def install_stubs():
    """replace utils.timestamp / gen_nonce / gen_nonce_64 (wherever they were imported) by trampolines"""
    global _installed
    import ndn.utils as utils
    if _installed:
        return
    _installed = True
    orig = {'timestamp': utils.timestamp, 'gen_nonce': utils.gen_nonce, 'gen_nonce_64': utils.gen_nonce_64}
    tr = {k: _tramp(k) for k in orig}
    for name, mod in list(sys.modules.items()):
        if mod is None or not (name == 'ndn' or name.startswith('ndn.')):
            continue
        for k, v in list(mod.__dict__.items()):
            for key, fn in orig.items():
                if v is fn:
                    mod.__dict__[k] = tr[key]
    _CUR.update(orig)


def set_clock(fn):
    install_stubs()
    _CUR['timestamp'] = fn


def set_nonce(fn32, fn64=None):
    install_stubs()
    _CUR['gen_nonce'] = fn32
    _CUR['gen_nonce_64'] = fn64 or fn32


def symbolic_env(eng):
    """clock and nonces are arbitrary values of their documented range"""
    set_clock(lambda: eng.int('clock', 0, 2 ** 63))
    set_nonce(lambda: eng.int('nonce32', 1, 2 ** 32 - 1), lambda: eng.int('nonce64', 1, 2 ** 64 - 1))


# ---------------------------------------------------------------------------------------------
# names
# ---------------------------------------------------------------------------------------------
def num_bytes(v, form):
    """encoding of a TLV number in the 1/3-byte form as list of elements (v int or SInt)"""
    if form == 1:
        return [v]
    if form == 3:
        if isinstance(v, core.SInt):
            return [0xFD] + core.pack_uint(v, 2)
        return [0xFD] + list(int(v).to_bytes(2, 'big'))
    raise AssertionError(form)


def component(eng, tag, vlen, form=1, typ=None, forbid=(2,)):
    """a name component with symbolic type (in the given encoding form) and vlen symbolic value bytes,
    built by the harness's own writer (not by ndn.encoding)"""
    if typ is None:
        if form == 1:
            typ = eng.int(tag + '.t', 1, 0xFC)
        else:
            typ = eng.int(tag + '.t', 0xFD, 0xFFFF)
        for f in forbid:
            eng.assume(typ != f)
    val = eng.bytes(tag + '.v', vlen)
    return bwrap(num_bytes(typ, form) + [vlen] + blist(val))


def concrete_component(typ, value):
    t = [typ] if typ <= 0xFC else [0xFD] + list(typ.to_bytes(2, 'big'))
    n = len(value)
    l = [n] if n <= 0xFC else [0xFD] + list(n.to_bytes(2, 'big'))
    return bytes(t + l + list(value))


def name_from_shape(eng, shape, tag='n'):
    """shape: list of (form, vlen)"""
    out = []
    for i, (form, vlen) in enumerate(shape):
        if form == 'L':
            # a long concrete generic component: moves enclosing lengths across the 253 boundary
            out.append(concrete_component(8, bytes((j * 3 + 1) & 0xFF for j in range(vlen))))
        else:
            out.append(component(eng, '%s%d' % (tag, i), vlen, form))
    return out


def name_wire(name):
    """Name TLV written by the harness (list of byte elements)"""
    body = []
    for c in name:
        body += blist(c)
    n = len(body)
    ln = [n] if n <= 0xFC else [0xFD] + list(n.to_bytes(2, 'big'))
    return [7] + ln + body


NAME_FORMS = ['list', 'tuple', 'iter', 'gen', 'wire', 'mview']


def name_in_form(name, form):
    """the same name in another accepted representation (NonStrictName): list, tuple, one-shot iterator, generator,
    encoded bytes, memoryview of the encoding"""
    from symex.api import mview
    if form == 'list':
        return list(name)
    if form == 'tuple':
        return tuple(name)
    if form == 'iter':
        return iter(list(name))
    if form == 'gen':
        return (c for c in list(name))
    w = bwrap(name_wire(name))
    if form == 'wire':
        return w
    if form == 'mview':
        return mview(w)
    raise AssertionError(form)


def names_equal(a, b):
    """component-wise equality of two formal names (lists of byte strings)"""
    if len(a) != len(b):
        return False
    r = True
    for x, y in zip(a, b):
        x, y = blist(x), blist(y)
        if len(x) != len(y):
            return False
        r = And(r, bwrap(x) == bwrap(y))
    return r


# ---------------------------------------------------------------------------------------------
# signers (shipped classes on top of the ideal primitives)
# ---------------------------------------------------------------------------------------------
ECDSA_CURVES = {'ecdsa': 'NIST P-256', 'ecdsa224': 'NIST P-224', 'ecdsa384': 'NIST P-384', 'ecdsa521': 'NIST P-521'}
SIGNER_KINDS = ['none', 'null', 'digest', 'hmac', 'rsa', 'ecdsa', 'ed25519']
KEY_NAME = '/k/KEY/1'


def make_signer(eng, kind, for_interest=False, rmin=0, key_ident='k', rmax=None, key_name=None):
    """returns (signer, info) ; for 'ecdsa' the real signature length is a solver variable r"""
    from ndn import security as sec
    KN = KEY_NAME if key_name is None else key_name
    if kind == 'none':
        return None
    if kind == 'null':
        return sec.NullSigner()
    if kind == 'digest':
        return sec.DigestSha256Signer(for_interest)
    if kind == 'hmac':
        return sec.HmacSha256Signer(KN, b'hmac-key-' + key_ident.encode())
    if kind == 'rsa':
        return sec.Sha256WithRsaSigner(KN, crypto.make_key('rsa', key_ident))
    if kind in ECDSA_CURVES:
        s = sec.Sha256WithEcdsaSigner(KN, crypto.make_key('ecc', key_ident, ECDSA_CURVES[kind]))

        def sig_len(k, mx):
            return eng.int('r', rmin, mx if rmax is None else min(mx, rmax))
        crypto.SIG_LEN = sig_len
        return s
    if kind == 'ed25519':
        return sec.Ed25519Signer(KN, crypto.make_key('ed', key_ident))
    raise AssertionError(kind)


SIG_TYPE = {'null': 200, 'digest': 0, 'hmac': 4, 'rsa': 1, 'ecdsa': 3, 'ed25519': 5, 'ecdsa224': 3, 'ecdsa384': 3,
            'ecdsa521': 3}
SIG_SIZE = {'null': 0, 'digest': 32, 'hmac': 32, 'rsa': 256, 'ecdsa': 72, 'ed25519': 64}


def mask(wire, regions):
    """copy of wire (as element list) with the given [a,b) regions zeroed (ideal-function outputs)"""
    w = list(blist(wire))
    for a, b in regions:
        for k in range(a, b):
            w[k] = 0
    return bwrap(w)


def optional_int(eng, name, lo, hi):
    if eng.choice(2, name + '?'):
        return eng.int(name, lo, hi)
    return None
