# Independent reference reader for NDN TLV formats (packet format 0.3, NDNLPv2, certificate v2),
# written from the format documentation - it shares no code with ndn.encoding.  It works on lists of
# byte elements that may be solver terms: every ``if`` on such a term goes through the same
# branching primitive as the library under test, so reference and implementation are compared on
# exactly the same set of values per path.
from symex.api import And, Or, Not, as_int, blist, bwrap, beq
from symex.core import SInt, SBool, unpack_uint


class RefReject(Exception):
    """the reference reader rejects the input (reason in args[0])"""


def rd_num(b, off, end):
    """variable-size number at b[off:]; returns (value, size, is_shortest_form)"""
    if off >= end:
        raise RefReject('truncated number')
    first = b[off]
    if first <= 0xFC:
        return first, 1, True
    if first == 0xFD:
        n = 2
    elif first == 0xFE:
        n = 4
    else:
        n = 8
    if off + 1 + n > end:
        raise RefReject('truncated number')
    v = unpack_uint([b[off + 1 + k] for k in range(n)])
    if n == 2:
        short = v > 0xFC
    elif n == 4:
        short = v > 0xFFFF
    else:
        short = v > 0xFFFFFFFF
    return v, 1 + n, short


class Tlv:
    __slots__ = ('typ', 'start', 'vs', 've', 'shortest')

    def __init__(self, typ, start, vs, ve, shortest):
        self.typ = typ
        self.start = start
        self.vs = vs
        self.ve = ve
        self.shortest = shortest


def rd_tlv(b, off, end, where='model'):
    """one element that must lie entirely inside [off, end)"""
    typ, st, m1 = rd_num(b, off, end)
    ln, sl, m2 = rd_num(b, off + st, end)
    vs = off + st + sl
    if ln > end - vs:
        raise RefReject('overrun:' + where)
    ln = as_int(ln)
    return Tlv(typ, off, vs, vs + ln, And(m1, m2))


def rd_seq(b, start, end, where='model'):
    """the elements that tile [start, end) exactly"""
    out = []
    off = start
    while off < end:
        t = rd_tlv(b, off, end, where)
        out.append(t)
        off = t.ve
    return out


def rd_uint(b, t):
    n = t.ve - t.vs
    if n not in (1, 2, 4, 8):
        raise RefReject('integer of illegal width %d' % n)
    v = 0
    for k in range(t.vs, t.ve):
        v = v * 256 + b[k]
    return v


# ---------------------------------------------------------------------------------------------
# schema-driven strict decoder.  A schema is a list of (field name, type number, kind, arg).
# kinds: 'uint', 'bool', 'bytes', 'str', 'name', 'model' (arg = (schema, ignore_critical)),
#        'rep' (arg = (kind, arg)) for repeated elements.
# Criticality follows the rule documented by the library (DecodeError docstring): odd type numbers.
# ---------------------------------------------------------------------------------------------
def decode_model(b, start, end, schema, ignore_critical=False, hooks=None):
    vals = {}
    pos = 0
    elems = rd_seq(b, start, end)
    k = 0
    while k < len(elems):
        t = elems[k]
        k += 1
        typ = t.typ
        idx = None
        for i in range(pos, len(schema)):
            if typ == schema[i][1]:
                idx = i
                break
        if idx is None:
            if (typ % 2) == 1 and not ignore_critical:
                raise RefReject('unrecognised / repeated / out-of-order critical element')
            continue
        name, _, kind, arg = schema[idx]
        if hooks:
            for j in range(pos, idx):
                if schema[j][0] in hooks:
                    hooks[schema[j][0]](t.start)
        if kind == 'rep':
            vals.setdefault(name, []).append(decode_value(b, t, arg[0], arg[1]))
            pos = idx
        elif kind == 'map':
            kk, ka, vk, va, vt = arg
            key = decode_value(b, t, kk, None)
            # the value element follows; unrecognised non-critical elements in between are ignored
            while True:
                if k >= len(elems):
                    raise RefReject('map key without value')
                t2 = elems[k]
                k += 1
                if t2.typ == vt:
                    break
                if (t2.typ % 2) == 1 and not ignore_critical:
                    raise RefReject('unrecognised critical element inside a map entry')
            if vk == 'model':
                val = decode_model(b, t2.vs, t2.ve, ref_schema_of(va[0]), va[1])
            else:
                val = decode_value(b, t2, vk, None)
            vals.setdefault(name, []).append((key, val))
            pos = idx
        else:
            vals[name] = decode_value(b, t, kind, arg)
            if hooks and ('@' + name) in hooks:
                hooks['@' + name](t)
            pos = idx + 1
    vals['#end_pos'] = pos
    return vals


def ref_schema_of(schema):
    from . import modelgen
    return modelgen.ref_schema(schema)


def decode_value(b, t, kind, arg):
    if kind == 'uint':
        return rd_uint(b, t)
    if kind == 'bool':
        return True
    if kind == 'bytes':
        return b[t.vs:t.ve]
    if kind == 'str':
        raw = [as_int(x) for x in b[t.vs:t.ve]]
        try:
            return bytes(raw).decode('utf-8')
        except UnicodeDecodeError:
            raise RefReject('text is not UTF-8')
    if kind == 'name':
        return [b[c.start:c.ve] for c in rd_name_components(b, t)]
    if kind == 'model':
        return decode_model(b, t.vs, t.ve, arg[0], arg[1])
    raise AssertionError(kind)


def rd_name_components(b, t):
    comps = rd_seq(b, t.vs, t.ve, 'name-component')
    return comps


KEYLOCATOR = [('name', 7, 'name', None), ('key_digest', 0x1d, 'bytes', None)]
SIGINFO = [('signature_type', 0x1b, 'uint', None), ('key_locator', 0x1c, 'model', (KEYLOCATOR, False)),
           ('signature_nonce', 0x26, 'uint', None), ('signature_time', 0x28, 'uint', None),
           ('signature_seq_num', 0x2a, 'uint', None)]
METAINFO = [('content_type', 0x18, 'uint', None), ('freshness_period', 0x19, 'uint', None),
            ('final_block_id', 0x1a, 'bytes', None)]
LINKS = [('names', 7, 'rep', ('name', None))]
DATA = [('name', 7, 'name', None), ('meta_info', 0x14, 'model', (METAINFO, False)),
        ('content', 0x15, 'bytes', None), ('signature_info', 0x16, 'model', (SIGINFO, True)),
        ('signature_value', 0x17, 'bytes', None)]
INTEREST = [('name', 7, 'name', None), ('can_be_prefix', 0x21, 'bool', None), ('must_be_fresh', 0x12, 'bool', None),
            ('forwarding_hint', 0x1e, 'model', (LINKS, False)), ('nonce', 0x0a, 'uint', None),
            ('lifetime', 0x0c, 'uint', None), ('hop_limit', 0x22, 'uint', None),
            ('application_parameters', 0x24, 'bytes', None),
            ('signature_info', 0x2c, 'model', (SIGINFO, False)), ('signature_value', 0x2e, 'bytes', None)]
NACK = [('nack_reason', 0x0321, 'uint', None)]
CACHEPOLICY = [('cache_policy_type', 0x0335, 'uint', None)]
LP = [('frag_index', 0x52, 'uint', None), ('frag_count', 0x53, 'uint', None), ('pit_token', 0x62, 'bytes', None),
      ('nack', 0x0320, 'model', (NACK, False)), ('incoming_face_id', 0x032C, 'uint', None),
      ('next_hop_face_id', 0x0330, 'uint', None), ('cache_policy', 0x0334, 'model', (CACHEPOLICY, False)),
      ('congestion_mark', 0x0340, 'uint', None), ('tx_sequence', 0x0348, 'bytes', None), ('ack', 0x0344, 'bytes', None),
      ('non_discovery', 0x034C, 'bool', None), ('prefix_announcement', 0x0350, 'bytes', None),
      ('fragment', 0x50, 'bytes', None)]
VALIDITY = [('not_before', 0xFE, 'bytes', None), ('not_after', 0xFF, 'bytes', None)]
DESC_ENTRY = [('description_key', 0x0201, 'bytes', None), ('description_value', 0x0202, 'bytes', None)]
ADD_DESC = [('description_entry', 0x0200, 'rep', ('model', (DESC_ENTRY, False)))]
CERT_SIGINFO = SIGINFO + [('validity_period', 0xFD, 'model', (VALIDITY, False)),
                          ('additional_description', 0x0102, 'model', (ADD_DESC, False))]
CERT = [('name', 7, 'name', None), ('meta_info', 0x14, 'model', (METAINFO, False)),
        ('content', 0x15, 'bytes', None), ('signature_info', 0x16, 'model', (CERT_SIGINFO, True)),
        ('signature_value', 0x17, 'bytes', None)]


def outer(b, expected_type):
    """the buffer is exactly one element of the expected type"""
    n = len(b)
    typ, st, m1 = rd_num(b, 0, n)
    ln, sl, m2 = rd_num(b, st, n)
    if typ != expected_type:
        raise RefReject('outer type')
    if ln != n - st - sl:
        raise RefReject('outer length does not match the buffer')
    return Tlv(typ, 0, st + sl, n, And(m1, m2))


def parse_name(b):
    """strict reading of an encoded Name at the start of b (trailing bytes allowed, as Name.decode)"""
    n = len(b)
    typ, st, _ = rd_num(b, 0, n)
    if typ != 7:
        raise RefReject('not a name')
    ln, sl, _ = rd_num(b, st, n)
    vs = st + sl
    if ln > n - vs:
        raise RefReject('name overruns the buffer')
    ln = as_int(ln)
    t = Tlv(7, 0, vs, vs + ln, True)
    return [b[c.start:c.ve] for c in rd_seq(b, t.vs, t.ve, 'name-component')], vs + ln


def parse_data(b, schema=DATA):
    o = outer(b, 6)
    region = {}
    hooks = {'@name': lambda t: region.__setitem__('name_start', t.start),
             '@signature_info': lambda t: region.__setitem__('siginfo_end', t.ve),
             '@signature_value': lambda t: region.__setitem__('sigvalue', (t.start, t.vs, t.ve))}
    vals = decode_model(b, o.vs, o.ve, schema, False, hooks)
    if 'name' not in vals:
        raise RefReject('Data without Name')
    vals['#region'] = region
    vals['#outer'] = o
    return vals


def parse_interest(b):
    o = outer(b, 5)
    region = {}
    hooks = {'@application_parameters': lambda t: region.__setitem__('params_start', t.start),
             '@signature_value': lambda t: region.__setitem__('sigvalue', (t.start, t.vs, t.ve))}
    vals = decode_model(b, o.vs, o.ve, INTEREST, False, hooks)
    if 'name' not in vals:
        raise RefReject('Interest without Name')
    vals['#region'] = region
    vals['#outer'] = o
    return vals


def parse_lp(b):
    o = outer(b, 0x64)
    vals = decode_model(b, o.vs, o.ve, LP, True)
    if 'frag_index' in vals or 'frag_count' in vals:
        raise RefReject('fragmentation is not supported')
    return vals


def parse_cert(b):
    return parse_data(b, CERT)


# ---------------------------------------------------------------------------------------------
# strict well-formedness of an encoder's output: exactly one element, all nested lengths exact,
# every type/length number in shortest form (used by C01/C08/C16 on the *output* side)
# ---------------------------------------------------------------------------------------------
CONTAINERS = {
    5: INTEREST, 6: DATA,
}


def strict_tree(b, start, end, schema, path='', ignore_critical=False):
    """all elements tile [start,end), are in shortest form, and (recursively) so are the members of
    the containers the schema knows.  Returns (ok_formula, list of (path, Tlv))."""
    ok = True
    found = []
    for t in rd_seq(b, start, end):
        ok = And(ok, t.shortest)
        ent = None
        for f in schema:
            if f[1] == t.typ:
                ent = f
                break
        name = ent[0] if ent else 'type%s' % (t.typ,)
        found.append((path + name, t))
        if ent is None:
            continue
        kind, arg = ent[2], ent[3]
        if kind == 'rep':
            kind, arg = arg
        if kind == 'model':
            ok2, sub = strict_tree(b, t.vs, t.ve, arg[0], path + name + '.', arg[1])
            ok = And(ok, ok2)
            found.extend(sub)
        elif kind == 'name':
            for c in rd_seq(b, t.vs, t.ve, 'name-component'):
                ok = And(ok, c.shortest)
        elif kind == 'uint':
            n = t.ve - t.vs
            if n not in (1, 2, 4, 8):
                return False, found
    return ok, found


def uint_min_width(v, n):
    """formula: n is the smallest legal width for v"""
    if n == 1:
        return v <= 0xFF
    if n == 2:
        return And(v > 0xFF, v <= 0xFFFF)
    if n == 4:
        return And(v > 0xFFFF, v <= 0xFFFFFFFF)
    if n == 8:
        return v > 0xFFFFFFFF
    return False
