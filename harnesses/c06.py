# C06 -- receive path: exact stream framing, and no failure on any delivered bytes.
# Real code executed symbolically: StreamFace.run, read_tl_num_from_stream, UdpFace.open (PacketHandler.
# datagram_received), appv2._receive / _on_data / _on_nack / _on_interest, app._receive / _on_data / _on_nack /
# _on_interest, parse_lp_packet(_v2), parse_interest, parse_data, params_sha256_checker; asyncio.StreamReader
# (real, pure Python) for the chunking harness.
import asyncio
from symex import vloop, core
from symex.api import And, Or, Not, Implies, Iff, blist, bwrap, beq, exc_sig, as_int, tobytes
from symex.core import SInt, SBytes
from . import env, appenv, ref

PROPERTY = 'C06'
INFO = {
    'explanation': 'C06: (framing) the real StreamFace.run loop reads from a stub reader serving a fully symbolic byte '
                   'string, and from the real asyncio.StreamReader fed with every way of cutting a concatenation of '
                   'packets into chunks; delivered packets are compared with a reference TLV splitter.  (robustness) '
                   'both front-ends receive fully symbolic byte strings, and every kind of valid packet with one symbolic '
                   'byte at every position / every truncation, in four application states; awaiting the receive callback '
                   'must return normally, the loop must see no unhandled error and an unrelated pending Interest and '
                   'handler must still work afterwards.',
    'bounds': {'quick': {'stream_bytes_symbolic': '0..6', 'chunk_cuts': 'two cut positions, every pair, 3 packet '
                         'concatenations', 'delivered_symbolic_bytes': '0..6', 'mutations': 'one byte (any position, any '
                         'value) or one truncation of 9 packet kinds'},
               'thorough': {'stream_bytes_symbolic': '0..9', 'delivered_symbolic_bytes': '0..8'}},
    'outside': ['byte strings longer than the bound with more than one symbolic byte', 'real sockets and OS scheduling'],
    'assumptions': ['virtual-time loop', 'the stub reader implements readexactly() as documented (n bytes or '
                    'IncompleteReadError)', 'dictionary lookups of symbolic name components are decided against the '
                    'components present in the tables'],
}
MANDATORY = {'frame_sym': ['framing-sequence'], 'frame_cuts': ['framing-sequence'], 'robust_sym': ['receive-returns'],
             'robust_mut': ['receive-returns']}


# ---------------------------------------------------------------------------------------------
# framing
# ---------------------------------------------------------------------------------------------
class StubReader:
    """asyncio.StreamReader.readexactly contract over a fixed (possibly symbolic) byte string"""
    def __init__(self, data):
        self.data = list(blist(data))
        self.pos = 0

    async def read(self, n=-1):
        """asyncio.StreamReader.read: up to n bytes, at least one unless at EOF (the stub has everything buffered)"""
        rem = len(self.data) - self.pos
        if n is None or (isinstance(n, int) and n < 0):
            n = rem
        if n > rem:
            n = rem
        n = as_int(n)
        out = bwrap(self.data[self.pos:self.pos + n])
        self.pos += n
        return out

    async def readexactly(self, n):
        rem = len(self.data) - self.pos
        if n > rem:
            part = bwrap(self.data[self.pos:])
            self.pos = len(self.data)
            raise asyncio.IncompleteReadError(part, n if isinstance(n, int) else None)
        n = as_int(n)
        out = bwrap(self.data[self.pos:self.pos + n])
        self.pos += n
        return out


def ref_split(b):
    """reference: the complete TLV elements at the start of b, in order"""
    out = []
    off = 0
    n = len(b)
    while True:
        try:
            typ, ts, _ = ref.rd_num(b, off, n)
            ln, ls, _ = ref.rd_num(b, off + ts, n)
        except ref.RefReject:
            break
        vs = off + ts + ls
        if ln > n - vs:
            break
        ln = as_int(ln)
        out.append((typ, b[off:vs + ln]))
        off = vs + ln
    return out


def _stream_face():
    from ndn.transport.stream_face import UnixFace
    return UnixFace('/nonexistent')


def _run_framing(eng, reader_factory, feeder, all_bytes):
    face = _stream_face()
    got = []

    async def cb(typ, buf):
        got.append((typ, buf))
    face.callback = cb

    async def main(loop):
        face.reader = reader_factory(loop)
        face.running = True
        if feeder is not None:
            asyncio.ensure_future(feeder(loop, face.reader))
        await face.run()
        for _ in range(3):
            await asyncio.sleep(0)
    loop, res, err = appenv.run(eng, main)
    if err == 'deadlock':
        eng.fail('framing-terminates', 'deadlock')
        return
    exp = ref_split(list(all_bytes))
    eng.check(len(got) == len(exp), 'framing-sequence', {'got': len(got), 'expected': len(exp)})
    if len(got) == len(exp):
        for (t1, b1), (t2, b2) in zip(got, exp):
            eng.check(And(t1 == t2, beq(b1, b2)), 'framing-sequence')
    eng.check(face.running is False, 'shutdown-on-eof')
    if loop.errors:
        exc = loop.errors[0].get('exception')
        eng.fail('no-unhandled-error-in-loop', exc_sig(exc) if exc is not None else str(loop.errors[0].get('message')))
    eng.observe('n', len(got))
    eng.reach('end')


def h_frame_sym(eng, case):
    data = eng.bytes('stream', case['n'])
    _run_framing(eng, lambda loop: StubReader(data), None, blist(data))


def _packets():
    import ndn.encoding as enc
    p1 = bytes(enc.make_interest('/a', enc.InterestParam(nonce=1)))
    p2 = bytes(enc.make_data('/a/b', enc.MetaInfo(), bytes(260)))            # 3-byte length form
    p3 = bytes([0xFD, 0x03, 0x20, 0x00])                                      # 3-byte type form, empty
    p4 = bytes([0xFE, 0, 1, 0, 0, 0xFE, 0, 0, 0, 2, 7, 7])                    # 5-byte type and length forms
    return [p1, p2, p3, p4]


def h_frame_cuts(eng, case):
    pk = _packets()
    data = b''.join(pk[i] for i in case['seq']) + bytes(case.get('tail', []))
    n = len(data)
    c1 = eng.int('cut1', 0, n)
    c2 = eng.int('cut2', 0, n)
    eng.assume(c1 <= c2)
    if case.get('c1max') is not None:
        eng.assume(c1 <= case['c1max'])
    a, b = as_int(c1), as_int(c2)

    async def feeder(loop, reader):
        for chunk in (data[:a], data[a:b], data[b:]):
            if chunk:
                reader.feed_data(chunk)
            await asyncio.sleep(0)
            await asyncio.sleep(0)
        reader.feed_eof()
    _run_framing(eng, lambda loop: asyncio.StreamReader(loop=loop), feeder, list(data))


# ---------------------------------------------------------------------------------------------
# robustness
# ---------------------------------------------------------------------------------------------
CAND = [b'\x08\x01a', b'\x08\x01b', b'\x08\x01p', b'\x08\x01x']


def _robust(eng, case, front, typ, pkt):
    """deliver (typ, pkt) in application state case['state']; then check nothing else was harmed"""
    import ndn.types as types
    import ndn.encoding as enc
    eng.hash_candidates = list(CAND)
    env.symbolic_env(eng)
    app, face = appenv.make_app(front)
    state = case['state']          # 0 nothing, 1 pending Interest, 2 handler, 3 both
    res = {}
    calls = []

    async def pass_v2(name, sig, ctx):
        return types.ValidResult.PASS

    async def pass_v1(name, sig):
        return True
    if state & 2:
        if front == 'v2':
            app.attach_handler('/p', lambda name, ap, reply, ctx: calls.append(name), pass_v2)
        else:
            app.set_interest_filter('/p', lambda name, param, ap: calls.append(name), pass_v1)

    async def consumer():
        try:
            if front == 'v2':
                n, c, ctx = await app.express('/a/b', pass_v2, lifetime=4000, nonce=9)
            else:
                n, m, c = await app.express_interest('/a/b', validator=pass_v1, lifetime=4000, nonce=9)
            res['r'] = ('data', bytes(c) if c is not None else None)
        except Exception as e:
            res['r'] = (type(e).__name__,)

    good_data = bytes(enc.make_data('/a/b', enc.MetaInfo(), b'ok'))
    good_int = bytes(enc.make_interest('/p/x', enc.InterestParam(nonce=3)))

    async def main(loop):
        t = None
        if state & 1:
            t = asyncio.ensure_future(consumer())
            await asyncio.sleep(0)
        await vloop.sleep_until(loop, loop.at_ms(10))
        try:
            await app._receive(typ, pkt)
        except Exception as e:
            eng.fail('receive-returns', exc_sig(e), repr(e)[:120])
        for _ in range(4):
            await asyncio.sleep(0)
        res['after_bad'] = res.get('r')
        res['calls_after_bad'] = len(calls)
        # subsequent valid exchange
        await vloop.sleep_until(loop, loop.at_ms(20))
        try:
            await app._receive(6, good_data)
            await app._receive(5, good_int)
        except Exception as e:
            eng.fail('later-valid-packets-processed', exc_sig(e), repr(e)[:120])
        for _ in range(4):
            await asyncio.sleep(0)
        if t is not None:
            await t

    loop, r, err = appenv.run(eng, main)
    if err == 'deadlock':
        eng.fail('unrelated-state-unaffected', 'deadlock')
        return
    eng.check(True, 'receive-returns')
    if loop.errors:
        exc = loop.errors[0].get('exception')
        eng.fail('no-unhandled-error-in-loop', exc_sig(exc) if exc is not None else str(loop.errors[0].get('message')))
    if case.get('strict'):
        # the delivered packet addresses nobody (a link-layer fragment): nothing may have happened when it was dropped,
        # and the later valid Data / Interest are what the pending Interest and the handler see
        eng.check(res.get('after_bad') is None and res.get('calls_after_bad') == 0, 'unrelated-state-unaffected',
                  {'outcome_after_packet': repr(res.get('after_bad')), 'handler_calls': res.get('calls_after_bad')},
                  sig='fragment-acted-upon')
        if state & 1:
            eng.check(res.get('r') == ('data', b'ok'), 'unrelated-state-unaffected', {'outcome': repr(res.get('r'))},
                      sig='pending-interest-not-completed-by-the-genuine-data')
        if state & 2:
            eng.check(len(calls) == 1, 'unrelated-state-unaffected', {'handler_calls': len(calls)},
                      sig='handler-calls')
    if state & 1:
        # the pending Interest for /a/b ends with Data: either the delivered packet itself was a matching Data /
        # Nack for it (then it legitimately addressed the Interest), or the later valid Data satisfies it
        got = res.get('r')
        eng.check(got is not None and got[0] in ('data', 'InterestNack', 'ValidationFailure'),
                  'unrelated-state-unaffected', {'outcome': repr(got)})
    if state & 2:
        eng.check(len(calls) >= 1, 'unrelated-state-unaffected', {'handler_calls': len(calls)})
    eng.observe('outcome', repr(res.get('r')))
    eng.observe('calls', len(calls))
    eng.reach('end')


def h_robust_sym(eng, case):
    """fully symbolic delivered bytes; typ consistent with the first byte, or arbitrary"""
    n = case['n']
    pkt = eng.bytes('pkt', n)
    if case['typ'] == 'consistent':
        if n == 0:
            typ = 0
        else:
            first = pkt[0]
            eng.assume(first <= 0xFC)
            eng.assume(Or(first == 5, first == 6, first == 0x64)) if case.get('known') else None
            typ = first
            typ = as_int(typ) if case.get('known') else typ
    else:
        typ = [5, 6, 0x64, 0x50, 0][eng.choice(5, 'typ')]
    _robust(eng, case, case['front'], typ, pkt)


def _valid_packets():
    import ndn.encoding as enc
    from ndn.encoding import ndnlp_v2 as lp
    sec = __import__('ndn.security', fromlist=['x'])
    P = {}
    P['interest'] = (5, bytes(enc.make_interest('/p/x', enc.InterestParam(nonce=1, lifetime=100))))
    P['interest_params'] = (5, bytes(enc.make_interest('/p/x', enc.InterestParam(nonce=1), b'ab')))
    P['data'] = (6, bytes(enc.make_data('/a/b', enc.MetaInfo(freshness_period=5), b'zz')))
    P['data_other'] = (6, bytes(enc.make_data('/x', enc.MetaInfo(), b'')))
    P['nack'] = (0x64, bytes(enc.make_network_nack(enc.make_interest('/a/b', enc.InterestParam(nonce=9, lifetime=4000)), 150)))

    def lpwrap(**kw):
        pk = lp.LpPacket()
        pk.lp_packet = lp.LpPacketValue()
        for k, v in kw.items():
            setattr(pk.lp_packet, k, v)
        return bytes(pk.encode())
    P['lp_data'] = (0x64, lpwrap(fragment=P['data'][1]))
    P['lp_token'] = (0x64, lpwrap(pit_token=b'\x01\x02\x03\x04', fragment=P['interest'][1]))
    P['lp_nofrag'] = (0x64, lpwrap(pit_token=b'\x01'))
    P['lp_frag'] = (0x64, lpwrap(frag_index=0, frag_count=2, fragment=P['data'][1][:10]))
    P['lp_emptyfrag'] = (0x64, lpwrap(fragment=b''))
    P['unknown'] = (0x50, bytes([0x50, 2, 1, 2]))
    return P


def h_robust_mut(eng, case):
    typ, w = _valid_packets()[case['pkt']]
    op = case['op']
    if op == 'byte':
        k = case['pos']
        v = eng.int('val', 0, 255)
        eng.assume(v != w[k])
        pkt = bwrap(list(w[:k]) + [v] + list(w[k + 1:]))
        if k == 0 and case.get('typ_follows'):
            typ = v
    elif op == 'trunc':
        pkt = w[:case['pos']]
    else:
        pkt = w
    _robust(eng, case, case['front'], typ, pkt)


def h_cancelled(eng, case):
    """Data that arrives while one of the Interests waiting for it has just been cancelled (its waiter has not run yet):
    reception returns normally and the other waiters still get the Data"""
    import ndn.types as types
    import ndn.encoding as enc
    front = case['front']
    app, face = appenv.make_app(front)
    n = case['consumers']
    res = [None] * n

    async def pass_v2(name, sig, ctx):
        return types.ValidResult.PASS

    async def pass_v1(name, sig):
        return True

    async def consumer(i):
        try:
            if front == 'v2':
                nm, c, ctx = await app.express('/a/b', pass_v2, lifetime=4000, nonce=9 + i)
            else:
                nm, m_, c = await app.express_interest('/a/b', validator=pass_v1, lifetime=4000, nonce=9 + i)
            res[i] = ('data', bytes(c) if c is not None else None)
        except BaseException as e:
            if type(e).__name__ in ('PathAbort', 'HarnessError'):
                raise
            res[i] = (type(e).__name__,)
    data = bytes(enc.make_data('/a/b', enc.MetaInfo(), b'ok'))
    victim = eng.choice(n, 'cancelled')
    second = eng.choice(n + 1, 'also-cancelled')          # n = nobody else

    async def main(loop):
        ts = [asyncio.ensure_future(consumer(i)) for i in range(n)]
        await asyncio.sleep(0)
        await vloop.sleep_until(loop, loop.at_ms(10))
        ts[victim].cancel()
        if second < n and second != victim:
            ts[second].cancel()
        try:
            if case.get('event') == 'nack':
                # a Nack for the name arrives instead (before the cancelled waiters get to run)
                nk = enc.make_network_nack(face.out[0], 150)
                await app._receive(0x64, nk)
            else:
                await app._receive(6, data)          # before the cancelled waiters get to run
        except Exception as e:
            eng.fail('receive-returns', exc_sig(e), repr(e)[:120])
        for _ in range(6):
            await asyncio.sleep(0)
        await vloop.sleep_until(loop, loop.at_ms(5000))
        for t in ts:
            if not t.done():
                t.cancel()
        for _ in range(3):
            await asyncio.sleep(0)
    loop, r, err = appenv.run(eng, main)
    if err == 'deadlock':
        eng.fail('unrelated-state-unaffected', 'deadlock')
        return
    eng.check(True, 'receive-returns')
    if loop.errors:
        exc = loop.errors[0].get('exception')
        eng.fail('no-unhandled-error-in-loop', exc_sig(exc) if exc is not None else str(loop.errors[0].get('message')))
    for i in range(n):
        if i == victim or i == second:
            continue
        want = ('InterestNack',) if case.get('event') == 'nack' else ('data', b'ok')
        eng.check(res[i] == want, 'unrelated-state-unaffected', {'consumer': i, 'outcome': repr(res[i])},
                  sig='waiter-next-to-a-cancelled-one-not-served')
    eng.observe('res', [repr(x) for x in res])
    eng.reach('end')


def h_partial(eng, case):
    """several Interests wait under one name; a Data that addresses only some of them arrives; the others still
    complete with the Data that addresses them"""
    import hashlib
    import ndn.types as types
    import ndn.encoding as enc
    front = case['front']
    app, face = appenv.make_app(front)
    res = {}

    async def pass_v2(name, sig, ctx):
        return types.ValidResult.PASS

    async def pass_v1(name, sig):
        return True

    async def consumer(tag, name, cbp):
        try:
            if front == 'v2':
                nm, c, ctx = await app.express(name, pass_v2, lifetime=4000, nonce={'P': 1, 'E': 2, 'D1': 3, 'D2': 4}[tag], can_be_prefix=cbp)
            else:
                nm, m_, c = await app.express_interest(name, validator=pass_v1, lifetime=4000, nonce={'P': 1, 'E': 2, 'D1': 3, 'D2': 4}[tag],
                                                       can_be_prefix=cbp)
            res[tag] = ('data', bytes(c))
        except Exception as e:
            res[tag] = (type(e).__name__,)
    long_d = bytes(enc.make_data('/a/b/c', enc.MetaInfo(), b'longer'))
    exact_d = bytes(enc.make_data('/a/b', enc.MetaInfo(), b'exact'))
    other_d = bytes(enc.make_data('/a/b', enc.MetaInfo(), b'other-version'))
    variant = case['variant']
    if variant == 'prefix':
        waiters = [('P', '/a/b', True), ('E', '/a/b', False)]
        first, second = long_d, exact_d
        expect = {'P': ('data', b'longer'), 'E': ('data', b'exact')}
    else:
        n1 = enc.Name.from_str('/a/b') + [enc.Component.from_bytes(hashlib.sha256(exact_d).digest(), 1)]
        n2 = enc.Name.from_str('/a/b') + [enc.Component.from_bytes(hashlib.sha256(other_d).digest(), 1)]
        waiters = [('D1', n1, False), ('D2', n2, False)]
        first, second = exact_d, other_d
        expect = {'D1': ('data', b'exact'), 'D2': ('data', b'other-version')}
    if eng.choice(2, 'order'):
        waiters.reverse()

    async def main(loop):
        ts = [asyncio.ensure_future(consumer(*w)) for w in waiters]
        await asyncio.sleep(0)
        await vloop.sleep_until(loop, loop.at_ms(10))
        try:
            await app._receive(6, first)
            for _ in range(4):
                await asyncio.sleep(0)
            await vloop.sleep_until(loop, loop.at_ms(20))
            await app._receive(6, second)
        except Exception as e:
            eng.fail('receive-returns', exc_sig(e), repr(e)[:120])
        for t in ts:
            await t
    loop, r, err = appenv.run(eng, main)
    if err == 'deadlock':
        eng.fail('unrelated-state-unaffected', 'deadlock')
        return
    eng.check(True, 'receive-returns')
    for tag, exp in expect.items():
        eng.check(res.get(tag) == exp, 'unrelated-state-unaffected', {'interest': tag, 'got': repr(res.get(tag)),
                                                                      'expected': repr(exp)},
                  sig='waiter-not-addressed-by-the-first-data-lost')
    eng.reach('end')


def h_fragment(eng, case):
    """an envelope with fragmentation headers (FragIndex >= 1, or FragCount >= 2), whatever complete packet its payload
    happens to decode as, is dropped"""
    from ndn.encoding import ndnlp_v2 as lp
    P = _valid_packets()
    payload = P[case['payload']][1]
    pk = lp.LpPacket()
    pk.lp_packet = lp.LpPacketValue()
    sel = case['headers']
    if sel == 'index':
        pk.lp_packet.frag_index = eng.int('frag_index', 1, 2 ** 64 - 1)
    elif sel == 'index+count':
        pk.lp_packet.frag_index = eng.int('frag_index', 1, 2 ** 64 - 1)
        pk.lp_packet.frag_count = eng.int('frag_count', 0, 2 ** 64 - 1)
    else:
        pk.lp_packet.frag_index = 0
        pk.lp_packet.frag_count = eng.int('frag_count', 2, 2 ** 64 - 1)
    pk.lp_packet.fragment = payload
    _robust(eng, dict(case, strict=True), case['front'], 0x64, tobytes(pk.encode()))


def h_stray_nack(eng, case):
    """a Nack nobody is waiting for, with any reason code, whose returned Interest falls under an attached handler's
    prefix (or names nothing at all): dropped, handler not invoked, nothing sent"""
    import ndn.encoding as enc
    name = case['name']
    reason = eng.int('reason', 0, 2 ** 64 - 1)
    wire = enc.make_network_nack(enc.make_interest(name, enc.InterestParam(nonce=3, lifetime=4000)), reason)
    _robust(eng, dict(case, strict=True, state=3), case['front'], 0x64, tobytes(wire))


def h_robust_log(eng, case):
    """the same deliveries with DEBUG logging switched on for the library (log arguments are evaluated then): concrete
    packets, incl. Data without Content / with empty Content / without MetaInfo"""
    import logging
    import ndn.encoding as enc
    P = _valid_packets()
    P['data_nocontent'] = (6, bytes(enc.make_data('/a/b', enc.MetaInfo(), None)))
    P['data_emptycontent'] = (6, bytes(enc.make_data('/a/b', enc.MetaInfo(), b'')))
    P['data_nometa'] = (6, bytes(enc.make_data('/a/b', None, b'zz')))
    P['data_nocontent_other'] = (6, bytes(enc.make_data('/x/y', None, None)))
    typ, w = P[case['pkt']]
    root = logging.getLogger('ndn')
    old_level = root.level
    h = logging.NullHandler()
    logging.disable(logging.NOTSET)
    root.setLevel(logging.DEBUG)
    root.addHandler(h)
    try:
        _robust(eng, case, case['front'], typ, w)
    finally:
        root.removeHandler(h)
        root.setLevel(old_level)
        logging.disable(logging.CRITICAL)


ROBUST_LOG_PACKETS = ['interest', 'interest_params', 'data', 'data_other', 'nack', 'lp_data', 'lp_token', 'lp_nofrag',
                      'lp_frag', 'lp_emptyfrag', 'unknown', 'data_nocontent', 'data_emptycontent', 'data_nometa',
                      'data_nocontent_other']


def h_udp(eng, case):
    """UdpFace: a datagram of arbitrary bytes must not raise out of datagram_received"""
    from ndn.transport.udp_face import UdpFace
    data = eng.bytes('dgram', case['n'])
    got = []

    async def cb(typ, buf):
        got.append((typ, buf))

    class FakeTransport:
        def sendto(self, d):
            pass

        def close(self):
            pass

    async def main(loop):
        face = UdpFace('127.0.0.1', 6363)
        face.callback = cb

        async def fake_endpoint(factory, remote_addr=None, **kw):
            proto = factory()
            tr = FakeTransport()
            proto.connection_made(tr)
            return tr, proto
        loop.create_datagram_endpoint = fake_endpoint
        await face.open()
        try:
            face.handler.datagram_received(data, ('127.0.0.1', 6363))
        except Exception as e:
            eng.fail('receive-returns', exc_sig(e), repr(e)[:120])
        for _ in range(3):
            await asyncio.sleep(0)
    loop, r, err = appenv.run(eng, main)
    eng.check(True, 'receive-returns')
    eng.observe('delivered', len(got))
    eng.reach('end')


HARNESSES = {'robust_log': h_robust_log, 'partial': h_partial, 'stray_nack': h_stray_nack, 'cancelled': h_cancelled, 'fragment': h_fragment, 'frame_sym': h_frame_sym, 'frame_cuts': h_frame_cuts, 'robust_sym': h_robust_sym,
             'robust_mut': h_robust_mut, 'udp': h_udp}


def cases(tier, seed):
    quick = tier == 'quick'
    cs = []
    for front in ('v2', 'v1'):
        for pk in ROBUST_LOG_PACKETS:
            cs.append(('robust_log', {'front': front, 'state': 3, 'pkt': pk}, {'weight': 1}))
    for front in ('v2', 'v1'):
        for variant in ('prefix', 'digest'):
            cs.append(('partial', {'front': front, 'variant': variant}, {'weight': 3}))
    for front in ('v2', 'v1'):
        # incl. the pending name / the handler prefix followed by an implicit digest (a different, longer name)
        for name in ('/p/x', '/p', '/a', '/a/b/c', '/zz', '/a/b/sha256digest=' + '5a' * 32,
                     '/p/sha256digest=' + 'a5' * 32):
            cs.append(('stray_nack', {'front': front, 'name': name}, {'weight': 3}))
    for front in ('v2', 'v1'):
        for n in (1, 2, 3):
            cs.append(('cancelled', {'front': front, 'consumers': n}, {'weight': 3}))
            cs.append(('cancelled', {'front': front, 'consumers': n, 'event': 'nack'}, {'weight': 3}))
    for front in ('v2', 'v1'):
        for payload in ('data', 'interest'):
            for hs in ('index', 'index+count', 'count'):
                cs.append(('fragment', {'front': front, 'state': 3, 'payload': payload, 'headers': hs}, {'weight': 3}))
    for n in range(0, (6 if quick else 9) + 1):
        cs.append(('frame_sym', {'n': n}, {'weight': 1 + n * n, 'split_depth': 5 if n >= 7 else None}))
    for seq, tail in (([0, 2], []), ([2, 3, 0], [5]), ([0, 0], [0xFD, 1]), ([1], []), ([3, 2], [6, 0xFE, 0, 0])):
        cs.append(('frame_cuts', {'seq': seq, 'tail': tail, 'c1max': 8 if (1 in seq and quick) else None},
                   {'weight': 60 if 1 in seq else 20, 'split_depth': 1 if 1 in seq else None}))
    for front in ('v2', 'v1'):
        for state in (0, 1, 2, 3):
            for n in range(0, (5 if quick else 8) + 1):
                for typ in ('consistent', 'arbitrary'):
                    if quick and state in (1, 2) and n > 3:
                        continue
                    cs.append(('robust_sym', {'front': front, 'state': state, 'n': n, 'typ': typ, 'known': True},
                               {'weight': 1 + 2 * n * n, 'split_depth': 5 if n >= 6 else None}))
        P = _valid_packets()
        for name, (typ, w) in P.items():
            for state in ((3,) if quick else (0, 1, 2, 3)):
                for k in range(len(w)):
                    cs.append(('robust_mut', {'front': front, 'state': state, 'pkt': name, 'op': 'byte', 'pos': k,
                                              'typ_follows': True}))
                for k in range(len(w)):
                    cs.append(('robust_mut', {'front': front, 'state': state, 'pkt': name, 'op': 'trunc', 'pos': k}))
                cs.append(('robust_mut', {'front': front, 'state': state, 'pkt': name, 'op': 'none', 'pos': 0}))
    for n in range(0, (4 if quick else 7) + 1):
        cs.append(('udp', {'n': n}))
    return cs
