# C12 -- the signing check holds exactly when the schema lets that key sign that packet.
# Real code executed symbolically on both names: Checker.check, _match (nested, with carried context), _check_cons,
# DEFAULT_USER_FNS, Name.normalize, Component.get_type; compile_lvs runs concretely per schema.
import os
from symex.api import And, Or, Not, blist, bwrap, beq, exc_sig
from . import env, lvsref
from .c11 import load_schema, user_fns, sym_name

PROPERTY = 'C12'
INFO = {
    'explanation': 'C12: packet name and key name are both symbolic (all length pairs up to the longest rule + 1, '
                   'components 08 01 xx, optional trailing component of symbolic type); Checker.check must equal the signing '
                   'relation evaluated by the reference on the source text, and check() == True implies that the key name '
                   'matches some rule.',
    'bounds': {'quick': {'schemas': 'hand-written shapes, test-file schemas with signing relations, 20 generated',
                         'names': 'length pairs (lp, lk) with lp, lk <= L+1 and L <= 5; 1-byte component values'},
               'thorough': {'schemas': '+ 400 generated'}},
    'outside': ['schemas outside the generator shapes', 'component values longer than 1 byte in the pair check'],
    'assumptions': ['schema texts are concrete'],
}
MANDATORY = {'check': ['check-equals-reference'], 'repartition': ['check-equals-reference']}


def h_check(eng, case):
    from ndn.app_support.light_versec import Checker
    st = load_schema(case['schema'], case['text'])
    if st[0] != 'ok':
        eng.reach('schema-not-usable:' + st[0])
        return
    _, ref, model = st
    fns = user_fns()
    pkt = sym_name(eng, {'shape': case['pshape']}, 'p')
    key = sym_name(eng, {'shape': case['kshape']}, 'k')
    try:
        checker = Checker(model, fns)
    except Exception as e:
        eng.fail('checker-builds', exc_sig(e))
        return
    rp, rk = list(pkt), list(key)
    if rp and lvsref.comp_type(rp[-1]) == 1:
        rp = rp[:-1]
    if rk and lvsref.comp_type(rk[-1]) == 1:
        rk = rk[:-1]
    try:
        info = {}
        exp = lvsref.ref_check(ref, rp, rk, info)
        key_matches = bool(lvsref.ref_match(ref, rk))
    except lvsref.UnboundFnArg:
        eng.reach('unbound-function-argument-not-claimed')
        return
    if case.get('twice'):
        # the same checker object answers an earlier question first: nothing of it may leak into the next answer
        try:
            checker.check(sym_name(eng, {'shape': case['pshape']}, 'q'), sym_name(eng, {'shape': case['kshape']}, 'j'))
        except Exception as e:
            eng.fail('check-no-exception', exc_sig(e), repr(e)[:150])
            return
    try:
        got = checker.check(pkt, key)
    except Exception as e:
        eng.fail('check-no-exception', exc_sig(e), repr(e)[:150])
        return
    if bool(got) != bool(exp):
        eng.fail('check-equals-reference', 'accepts-unauthorised-key' if got else 'rejects-authorised-key' + (
                 ':constrained-temporary-pattern-of-a-rule-referenced-twice' if info.get('shared_temp') else ''),
                 {'schema': case['schema'], 'key_matches_a_rule': key_matches})
        return
    eng.check(True, 'check-equals-reference')
    if got and not _has_pattern_options(ref):
        # corollary of the statement.  When a key rule constrains a pattern by ANOTHER pattern, the packet's bindings
        # can legitimately enable a match that the key name alone does not have (documented: "carried over through a
        # signing chain"), so the stand-alone corollary is asserted only for schemas without such options
        eng.check(key_matches, 'accepted-key-matches-a-rule')
    eng.observe('check', bool(got))
    eng.reach('end')


def _has_pattern_options(ref):
    for cs in ref.chains.values():
        for ch in cs:
            for _, opts in ch.cons:
                for o in opts:
                    if o[0] == 'pat' or (o[0] == 'fn' and any(a[0] == 'pat' for a in o[2])):
                        return True
    return False


def h_repartition(eng, case):
    """one checker object is asked two questions that consist of the SAME component sequence cut at different places
    into packet name and key name (components from the schema's own literals plus a foreign one, chosen by the
    solver-pruned choice - names are concrete here, so code that renders names as text can run): each answer is the
    reference's answer for that cut"""
    from ndn.app_support.light_versec import Checker
    st = load_schema(case['schema'], case['text'])
    if st[0] != 'ok':
        eng.reach('schema-not-usable:' + st[0])
        return
    _, ref, model = st
    alpha = [bytes(c) for c in ref.literals()][:case.get('alpha', 4)] + [b'\x08\x02zz']
    comps = [alpha[eng.choice(len(alpha), 'c%d' % i)] for i in range(case['total'])]
    try:
        checker = Checker(model, user_fns())
    except Exception as e:
        eng.fail('checker-builds', exc_sig(e))
        return
    answers = []
    for n, cut in enumerate(case['cuts']):
        p, k = comps[:cut], comps[cut:]
        try:
            exp = lvsref.ref_check(ref, list(p), list(k), {})
        except lvsref.UnboundFnArg:
            eng.reach('unbound-function-argument-not-claimed')
            return
        try:
            got = checker.check(list(p), list(k))
        except Exception as e:
            eng.fail('check-no-exception', exc_sig(e), repr(e)[:150])
            return
        answers.append(bool(got))
        if bool(got) != bool(exp):
            eng.fail('check-equals-reference', ('accepts-unauthorised-key' if got else 'rejects-authorised-key') +
                     ':question-%d-on-one-checker' % n, {'schema': case['schema'], 'cuts': case['cuts']})
            return
    eng.check(True, 'check-equals-reference')
    eng.observe('answers', answers)
    eng.reach('end')


HARNESSES = {'check': h_check, 'repartition': h_repartition}


def cases(tier, seed):
    repo = os.environ.get('VERIF_REPO', '/repo')
    cat = lvsref.catalogue(tier, seed, repo)
    cs = []
    for key, text in sorted(cat.items()):
        st = load_schema(key, text)
        if st[0] != 'ok':
            continue
        ref = st[1]
        if not any(c.signers for cs_ in ref.chains.values() for c in cs_):
            continue
        L = ref.max_len()
        if L > 5:
            continue
        lens = sorted(set(len(c.items) for cs_ in ref.chains.values() for c in cs_))
        cand = sorted(set(lens + [0, L + 1]))
        for lp in cand:
            for lk in cand:
                shapes = [([1] * lp, [1] * lk)]
                if lp and lk and lp in lens and lk in lens:
                    shapes.append(([1] * lp + ['t'], [1] * lk))
                    shapes.append(([1] * lp, [1] * lk + ['t']))
                for ps, ks in shapes:
                    cs.append(('check', {'schema': key, 'text': text, 'pshape': ps, 'kshape': ks},
                               {'weight': 1 + (lp + lk) ** 2}))
                if lp in lens and lk in lens and 2 <= lp + lk <= 4 and (key.startswith('hand_') or tier != 'quick'):
                    cs.append(('check', {'schema': key, 'text': text, 'pshape': [1] * lp, 'kshape': [1] * lk,
                                         'twice': True}, {'weight': 1 + (lp + lk) ** 4}))
        # the same component sequence cut at two places, asked of one checker object (concrete components)
        if key.startswith('hand_') and L <= 4:
            for total in (2, 3, 4):
                for c1 in range(0, total + 1):
                    for c2 in range(0, total + 1):
                        if c1 != c2 and (c1 in lens or c2 in lens):
                            cs.append(('repartition', {'schema': key, 'text': text, 'total': total, 'cuts': [c1, c2],
                                                       'alpha': 3 if total == 4 else 4}, {'weight': 4 ** total}))
        # a name that consists of one component of symbolic type only (a lone implicit digest stands for the empty name)
        for l in sorted(set(lens + [0, 1])):
            cs.append(('check', {'schema': key, 'text': text, 'pshape': ['t'], 'kshape': [1] * l}, {'weight': 2}))
            cs.append(('check', {'schema': key, 'text': text, 'pshape': [1] * l, 'kshape': ['t']}, {'weight': 2}))
        cs.append(('check', {'schema': key, 'text': text, 'pshape': ['t'], 'kshape': ['t']}, {'weight': 2}))
    return cs
