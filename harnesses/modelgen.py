# Generic machinery for TlvModel classes (C08, C10, C17, C18): introspection of a model class into a
# plain schema, an independent reference writer, symbolic value plans, structural comparison.
import random
from symex.api import And, Or, Not, blist, bwrap, beq, as_int
from symex.core import SInt, SBool
from . import ref, env


def kinds():
    from ndn.encoding import tlv_model as tm
    return tm


def schema_of(cls, _seen=None):
    """[(name, type, kind, arg)] in declared order; kind/arg as in ref.decode_model plus:
       ('uint', {'fixed': n|None, 'enum': [values]|None}), ('map', (keykind, keyarg, valkind, valarg, valtype))"""
    tm = kinds()
    out = []
    for f in cls._encoded_fields:
        if isinstance(f, tm.ProcedureArgument):
            continue
        out.append((f.name, f.type_num) + field_kind(f))
    return out


def field_kind(f):
    tm = kinds()
    import enum
    if isinstance(f, tm.UintField):
        en = None
        if f.val_base_type is not int and isinstance(f.val_base_type, type) and issubclass(f.val_base_type, enum.Enum):
            en = [m.value for m in f.val_base_type]
        return ('uint', {'fixed': f.fixed_len, 'enum': en})
    if isinstance(f, tm.BoolField):
        return ('bool', None)
    if isinstance(f, tm.BytesField):
        return ('str' if f.is_string else 'bytes', None)
    if isinstance(f, tm.NameField):
        return ('name', None)
    if isinstance(f, tm.ModelField):
        return ('model', (schema_of(f.model_type), f.ignore_critical, f.model_type))
    if isinstance(f, tm.RepeatedField):
        k, a = field_kind(f.element_type)
        return ('rep', (k, a))
    if isinstance(f, tm.MapField):
        kk, ka = field_kind(f.key_type)
        vk, va = field_kind(f.value_type)
        return ('map', (kk, ka, vk, va, f.value_type.type_num))
    return ('unsupported', type(f).__name__)


def supported(schema):
    for name, t, kind, arg in schema:
        if kind == 'unsupported':
            return False
        if kind == 'model' and not supported(arg[0]):
            return False
        if kind == 'rep' and arg[0] == 'model' and not supported(arg[1][0]):
            return False
        if kind == 'rep' and arg[0] == 'unsupported':
            return False
    return True


def leaves(schema, prefix=''):
    """paths of leaf fields"""
    out = []
    for name, t, kind, arg in schema:
        p = prefix + name
        if kind == 'model':
            out.extend(leaves(arg[0], p + '.'))
        else:
            out.append((p, kind, arg))
    return out


# ---------------------------------------------------------------------------------------------
# reference writer
# ---------------------------------------------------------------------------------------------
def w_num(v):
    if v <= 0xFC:
        return [v]
    if v <= 0xFFFF:
        return [0xFD] + list(v.to_bytes(2, 'big'))
    if v <= 0xFFFFFFFF:
        return [0xFE] + list(v.to_bytes(4, 'big'))
    return [0xFF] + list(v.to_bytes(8, 'big'))


def w_tlv(t, val):
    return w_num(t) + w_num(len(val)) + list(val)


def w_uint(v, fixed):
    from symex.core import pack_uint
    if fixed is not None:
        n = fixed
    elif v <= 0xFF:
        n = 1
    elif v <= 0xFFFF:
        n = 2
    elif v <= 0xFFFFFFFF:
        n = 4
    else:
        n = 8
    if isinstance(v, SInt):
        return pack_uint(v, n)
    return list(int(v).to_bytes(n, 'big'))


def w_value(t, kind, arg, v):
    """reference encoding of one present value"""
    if kind == 'uint':
        return w_tlv(t, w_uint(v, arg['fixed']))
    if kind == 'bool':
        return w_tlv(t, [])
    if kind == 'bytes':
        return w_tlv(t, blist(v))
    if kind == 'str':
        return w_tlv(t, list(v.encode('utf-8')))
    if kind == 'name':
        body = []
        for c in v:
            body += blist(c)
        return w_tlv(t, body)
    if kind == 'model':
        return w_tlv(t, w_model(arg[0], v))
    raise AssertionError(kind)


def w_model(schema, vals):
    """vals: dict name -> value (absent = not in dict or None); repeated: list; map: list of (k, v)"""
    out = []
    for name, t, kind, arg in schema:
        v = vals.get(name)
        if v is None:
            continue
        if kind == 'bool':
            # symbolic bools are decided by the library's own ``if val`` on the path
            if v:
                out += w_tlv(t, [])
        elif kind == 'rep':
            for x in v:
                out += w_value(t, arg[0], arg[1], x)
        elif kind == 'map':
            kk, ka, vk, va, vt = arg
            for k, x in v:
                out += w_value(t, kk, ka, k)
                out += w_value(vt, vk, va, x)
        else:
            out += w_value(t, kind, arg, v)
    return out


# ---------------------------------------------------------------------------------------------
# building library objects from value dicts, and comparing parsed objects with value dicts
# ---------------------------------------------------------------------------------------------
FORMS = [False, 0]      # [enabled, running counter]: values handed to the model in other accepted representations


def _reform(kind, v):
    """another accepted representation of a field value: byte strings as memoryview, names as tuple / one-shot
    encoded bytes / memoryview of the encoding"""
    from symex.api import mview
    FORMS[1] += 1
    k = FORMS[1]
    if kind == 'bytes':
        return mview(bwrap(blist(v))) if k % 2 else v
    if kind == 'name':
        # (re-iterable forms only: the harness encodes a model several times; one-shot iterators are C01's subject)
        return env.name_in_form(v, ('tuple', 'wire', 'mview')[k % 3])
    return v


def build(cls, schema, vals):
    m = cls()
    for name, t, kind, arg in schema:
        v = vals.get(name)
        if v is not None and FORMS[0]:
            if kind in ('bytes', 'name'):
                v = _reform(kind, v)
            elif kind == 'rep' and arg[0] in ('bytes', 'name'):
                v = [_reform(arg[0], x) for x in v]
        if v is None:
            if kind not in ('rep', 'map'):
                setattr(m, name, None)
            continue
        if kind == 'model':
            setattr(m, name, build(arg[2], arg[0], v))
        elif kind == 'rep':
            if arg[0] == 'model':
                setattr(m, name, [build(arg[1][2], arg[1][0], x) for x in v])
            else:
                setattr(m, name, list(v))
        elif kind == 'map':
            kk, ka, vk, va, vt = arg
            d = {}
            for k, x in v:
                d[k] = build(va[2], va[0], x) if vk == 'model' else x
            setattr(m, name, d)
        else:
            setattr(m, name, v)
    return m


def same_value(kind, arg, got, exp):
    """formula / bool: parsed value `got` equals expected `exp` (both present)"""
    if kind == 'uint':
        if hasattr(got, 'value') and not isinstance(got, (int, SInt)):
            got = got.value
        return got == exp
    if kind == 'bool':
        return bool(got) is True
    if kind == 'bytes':
        return beq(got, exp)
    if kind == 'str':
        return got == exp
    if kind == 'name':
        return env.names_equal(got, exp)
    if kind == 'model':
        return same_model(arg[0], got, exp)
    raise AssertionError(kind)


def same_model(schema, obj, vals):
    r = True
    for name, t, kind, arg in schema:
        exp = vals.get(name)
        if kind == 'uint' and arg['enum'] is not None:
            got = obj.__dict__.get(name)
        else:
            got = getattr(obj, name)
        if kind == 'bool':
            if exp is None:
                r = And(r, not got)
            else:
                r = And(r, Or(And(exp, got is True), And(Not(exp), not got)))
            continue
        if kind == 'rep':
            exp = exp or []
            if len(got) != len(exp):
                return False
            for g, x in zip(got, exp):
                r = And(r, same_value(arg[0], arg[1], g, x))
            continue
        if kind == 'map':
            exp = exp or []
            kk, ka, vk, va, vt = arg
            if len(got) != len(exp):
                return False
            for (gk, gv), (k, x) in zip(got.items(), exp):
                r = And(r, same_value(kk, ka, gk, k), same_value(vk, va, gv, x))
            continue
        if exp is None:
            if got is not None:
                return False
            continue
        if got is None:
            return False
        r = And(r, same_value(kind, arg, got, exp))
    return r


def same_ref(schema, rvals, vals):
    """reference-decoded dict (ref.decode_model output) equals the expected value dict"""
    r = True
    for name, t, kind, arg in schema:
        exp = vals.get(name)
        got = rvals.get(name)
        if kind == 'bool':
            r = And(r, Or(And(exp if exp is not None else False, got is True),
                          And(Not(exp) if exp is not None else True, got is None)))
            continue
        if kind == 'rep':
            exp = exp or []
            got = got or []
            if len(got) != len(exp):
                return False
            for g, x in zip(got, exp):
                r = And(r, _same_ref_value(arg[0], arg[1], g, x))
            continue
        if kind == 'map':
            exp = exp or []
            got = got or []
            kk, ka, vk, va, vt = arg
            if len(got) != len(exp):
                return False
            for (gk, gv), (k, x) in zip(got, exp):
                r = And(r, _same_ref_value(kk, ka, gk, k), _same_ref_value(vk, va, gv, x))
            continue
        if exp is None:
            if got is not None:
                return False
            continue
        if got is None:
            return False
        r = And(r, _same_ref_value(kind, arg, got, exp))
    return r


def _same_ref_value(kind, arg, got, exp):
    if kind == 'uint':
        return got == exp
    if kind == 'bytes':
        return beq(got, exp)
    if kind == 'str':
        return got == exp
    if kind == 'name':
        return env.names_equal(got, exp)
    if kind == 'model':
        return same_ref(arg[0], got, exp)
    raise AssertionError(kind)


def ref_schema(schema):
    """schema in the form ref.decode_model expects"""
    out = []
    for name, t, kind, arg in schema:
        out.append((name, t) + _ref_kind(kind, arg))
    return out


def _ref_kind(kind, arg):
    if kind == 'uint':
        return ('uint', None)
    if kind == 'model':
        return ('model', (ref_schema(arg[0]), arg[1]))
    if kind == 'rep':
        k, a = _ref_kind(arg[0], arg[1])
        return ('rep', (k, a))
    if kind == 'map':
        return ('map', arg)
    return (kind, None)


# ---------------------------------------------------------------------------------------------
# value plans
# ---------------------------------------------------------------------------------------------
MAP_KEYS = [0, 255, 256, 65535, 65536, 2 ** 32 - 1, 2 ** 32, 2 ** 64 - 1]
TEXTS = ['', 'abc', 'é', '€', '\U0001F600', 'x' * 300, 'é' * 126, 'é' * 127, 'a' * 252, 'a' * 253]
# (character count vs UTF-8 byte count on both sides of the 253 length boundary)


def fixed_value(kind, arg, salt=0):
    if kind == 'uint':
        if arg['enum'] is not None:
            return arg['enum'][salt % len(arg['enum'])]
        if arg['fixed'] is not None:
            return (0x0102030405060708 >> (8 * (8 - arg['fixed']))) & (256 ** arg['fixed'] - 1)
        return [5, 300, 70000, 2 ** 40][salt % 4]
    if kind == 'bool':
        return True
    if kind == 'bytes':
        return bytes([1, 2, 3][:salt % 4])
    if kind == 'str':
        return TEXTS[salt % 3]
    if kind == 'name':
        return [env.concrete_component(8, b'a'), env.concrete_component(0x20, b'')][:1 + salt % 2]
    raise AssertionError(kind)


def sym_value(eng, kind, arg, tag):
    if kind == 'uint':
        if arg['enum'] is not None:
            return arg['enum'][eng.choice(len(arg['enum']), tag)]
        hi = 2 ** 64 - 1 if arg['fixed'] is None else 256 ** arg['fixed'] - 1
        return eng.int(tag, 0, hi)
    if kind == 'bool':
        return eng.bool(tag)
    if kind == 'bytes':
        return eng.bytes(tag, eng.choice(4, tag + '.len'))
    if kind == 'str':
        menu = TEXTS if _WIDE[0] else TEXTS_SMALL
        return menu[eng.choice(len(menu), tag)]
    if kind == 'name':
        n = eng.choice(3, tag + '.n')
        return [env.component(eng, '%s.c%d' % (tag, i), i % 2 + 1, 1 + 2 * (i % 2), forbid=()) for i in range(n)]
    raise AssertionError(kind)


_WIDE = [True]
TEXTS_SMALL = ['', 'é', 'é' * 127, 'a' * 253]


def make_values(eng, schema, plan, prefix=''):
    """plan: dict leaf path -> 'sym' | 'fixed' | 'absent' (default 'absent')"""
    if prefix == '':
        # the full text menu when one leaf is symbolic, a boundary subset when several are (product of menus)
        _WIDE[0] = sum(1 for v in plan.values() if v == 'sym') <= 1
    vals = {}
    for i, (name, t, kind, arg) in enumerate(schema):
        p = prefix + name
        if kind == 'model':
            sub = make_values(eng, arg[0], plan, p + '.')
            if sub or plan.get(p) == 'empty':
                vals[name] = sub
            continue
        mode = plan.get(p, 'absent')
        if mode == 'absent':
            continue
        if kind == 'rep':
            ek, ea = arg
            n = eng.choice(3, p + '.n') if mode == 'sym' else 1
            items = []
            for j in range(n):
                if ek == 'model':
                    subplan = {q: ('sym' if mode == 'sym' and jj == 0 else 'fixed')
                               for jj, (q, _, _) in enumerate(leaves(ea[0], '%s[%d].' % (p, j)))}
                    items.append(make_values(eng, ea[0], subplan, '%s[%d].' % (p, j)))
                elif mode == 'sym':
                    items.append(sym_value(eng, ek, ea, '%s[%d]' % (p, j)))
                else:
                    items.append(fixed_value(ek, ea, i + j))
            if items:
                vals[name] = items
            continue
        if kind == 'map':
            kk, ka, vk, va, vt = arg
            n = eng.choice(3, p + '.n') if mode == 'sym' else 1
            items = []
            for j in range(n):
                if kk == 'uint':
                    # dictionary keys are hashed: they are concrete, picked by choice at the width boundaries
                    key = (MAP_KEYS[(eng.choice(4, '%s.k%d' % (p, j)) * 2 + j) % len(MAP_KEYS)] if mode == 'sym'
                           else 7 + j)
                else:
                    key = ['k0', 'ké', 'kk2'][j] if kk == 'str' else bytes([j + 1])
                if vk == 'model':
                    subplan = {q: 'fixed' for q, _, _ in leaves(va[0], '%s.v%d.' % (p, j))}
                    val = make_values(eng, va[0], subplan, '%s.v%d.' % (p, j))
                elif mode == 'sym':
                    val = sym_value(eng, vk, va, '%s.v%d' % (p, j))
                else:
                    val = fixed_value(vk, va, i + j)
                items.append((key, val))
            # distinct keys (a dict cannot hold two equal keys)
            for a in range(len(items)):
                for b in range(a + 1, len(items)):
                    if kk == 'uint' and items[a][0] == items[b][0]:
                        eng.assume(False)
            if items:
                vals[name] = items
            continue
        if mode == 'sym':
            vals[name] = sym_value(eng, kind, arg, p)
        else:
            vals[name] = fixed_value(kind, arg, i)
    return vals


def plans(schema, max_pairs=True):
    """value plans for one model: all fixed; each leaf symbolic (others alternately fixed/absent); adjacent pairs"""
    lv = [p for p, k, a in leaves(schema)]
    out = [{p: 'fixed' for p in lv}]
    for i, p in enumerate(lv):
        pl = {q: ('fixed' if (j + i) % 2 else 'absent') for j, q in enumerate(lv)}
        pl[p] = 'sym'
        out.append(pl)
    if max_pairs:
        for i in range(len(lv) - 1):
            pl = {q: 'absent' for q in lv}
            pl[lv[i]] = 'sym'
            pl[lv[i + 1]] = 'sym'
            out.append(pl)
    return out


# ---------------------------------------------------------------------------------------------
# synthetic model classes
# ---------------------------------------------------------------------------------------------
TYPE_NUMS = [1, 0x10, 0x81, 252, 253, 0x101, 65535, 65536, 2 ** 32 - 1, 2 ** 32, 2 ** 40 + 1]


def synth_source(rng, idx, depth=0):
    """python source of a random TlvModel class (and the classes it needs); returns (class name, source)"""
    name = 'Syn%d_%d' % (idx, depth)
    pre = []
    lines = ['class %s(TlvModel):' % name]
    nf = rng.randint(1, 5)
    used = set()
    types = sorted(rng.sample(TYPE_NUMS, min(len(TYPE_NUMS), nf + 2)))
    for i in range(nf):
        t = types[i]
        kind = rng.choice(['uint', 'uint_fixed', 'bool', 'bytes', 'str', 'name', 'model', 'rep_uint', 'rep_bytes',
                           'rep_model', 'map_uint', 'map_str'] if depth < 2 else
                          ['uint', 'uint_fixed', 'bool', 'bytes', 'str', 'name', 'rep_uint'])
        f = 'f%d' % i
        if kind == 'uint':
            lines.append('    %s = UintField(%d)' % (f, t))
        elif kind == 'uint_fixed':
            lines.append('    %s = UintField(%d, fixed_len=%d)' % (f, t, rng.choice([1, 2, 4, 8])))
        elif kind == 'bool':
            lines.append('    %s = BoolField(%d)' % (f, t))
        elif kind == 'bytes':
            lines.append('    %s = BytesField(%d)' % (f, t))
        elif kind == 'str':
            lines.append('    %s = BytesField(%d, is_string=True)' % (f, t))
        elif kind == 'name':
            if 'name' in used:
                lines.append('    %s = UintField(%d)' % (f, t))
            else:
                used.add('name')
                lines.append('    %s = NameField()' % f)
        elif kind == 'model':
            sub, src = synth_source(rng, idx * 10 + i, depth + 1)
            pre.append(src)
            lines.append('    %s = ModelField(%d, %s)' % (f, t, sub))
        elif kind == 'rep_uint':
            lines.append('    %s = RepeatedField(UintField(%d))' % (f, t))
        elif kind == 'rep_bytes':
            lines.append('    %s = RepeatedField(BytesField(%d))' % (f, t))
        elif kind == 'rep_model':
            sub, src = synth_source(rng, idx * 10 + i, depth + 1)
            pre.append(src)
            lines.append('    %s = RepeatedField(ModelField(%d, %s))' % (f, t, sub))
        elif kind == 'map_uint':
            lines.append('    %s = MapField(UintField(%d), BytesField(%d))' % (f, t, t + 2))
        elif kind == 'map_str':
            lines.append('    %s = MapField(BytesField(%d, is_string=True), UintField(%d))' % (f, t, t + 2))
    return name, '\n'.join(pre + ['\n'.join(lines)]) + '\n'


_SYN_CACHE = {}


def synth_class(seed, idx):
    key = (seed, idx)
    if key not in _SYN_CACHE:
        rng = random.Random(seed * 1000003 + idx)
        name, src = synth_source(rng, idx)
        import ndn.encoding as enc
        ns = {k: getattr(enc, k) for k in ('TlvModel', 'UintField', 'BoolField', 'BytesField', 'NameField',
                                           'ModelField', 'RepeatedField', 'MapField', 'IncludeBase')}
        exec(compile(src, '<synthetic model %d>' % idx, 'exec'), ns)
        _SYN_CACHE[key] = (ns[name], src)
    return _SYN_CACHE[key]


FIXED_SYNTH = '''
class Inner(TlvModel):
    a = UintField(0x01)
    b = BytesField(0x02)

class Base(TlvModel):
    m1 = UintField(0x01)
    m2 = BytesField(0x03, is_string=True)

class Derived(Base):
    base = IncludeBase(Base)
    m2 = UintField(0x03, fixed_len=2)
    m3 = BoolField(0x05)

class Fix0(TlvModel):
    u = UintField(0x81)
    u1 = UintField(0x83, fixed_len=1)
    u2 = UintField(0x85, fixed_len=2)
    u4 = UintField(0x87, fixed_len=4)
    u8 = UintField(0x89, fixed_len=8)

class Fix1(TlvModel):
    flag = BoolField(253)
    text = BytesField(65535, is_string=True)
    blob = BytesField(65536)
    big = UintField(4294967296)

class Fix2(TlvModel):
    name = NameField()
    inner = ModelField(0x20, Inner)
    rep = RepeatedField(ModelField(0x22, Inner))
    tail = UintField(0x24)

class Fix3(TlvModel):
    m = MapField(UintField(0x85), BytesField(0x87))
    after = UintField(0x89)

class Fix4(TlvModel):
    m = MapField(BytesField(0x85, is_string=True), ModelField(0x87, Inner))
    names = RepeatedField(NameField())

class Fix5(TlvModel):
    d = ModelField(0x30, Derived)
    r = RepeatedField(UintField(0x32))
    rb = RepeatedField(BytesField(0x34, is_string=True))

class Fix6(TlvModel):
    head = UintField(0x81)
    routes = MapField(UintField(0x85), NameField())
    tail = BytesField(0x8b)
'''


def fixed_synth():
    if 'fixed' not in _SYN_CACHE:
        import ndn.encoding as enc
        ns = {k: getattr(enc, k) for k in ('TlvModel', 'UintField', 'BoolField', 'BytesField', 'NameField',
                                           'ModelField', 'RepeatedField', 'MapField', 'IncludeBase')}
        exec(compile(FIXED_SYNTH, '<fixed synthetic models>', 'exec'), ns)
        _SYN_CACHE['fixed'] = {k: ns[k] for k in ('Derived', 'Fix0', 'Fix1', 'Fix2', 'Fix3', 'Fix4', 'Fix5', 'Fix6')}
    return _SYN_CACHE['fixed']


def shipped_models():
    """every TlvModel subclass shipped with the library (discovered at run time)"""
    import importlib
    import ndn.encoding as enc
    mods = ['ndn.encoding.ndn_format_0_3', 'ndn.encoding.ndnlp_v2', 'ndn.app_support.nfd_mgmt',
            'ndn.app_support.light_versec.binary', 'ndn.app_support.svs.tlv', 'ndn.app_support.security_v2']
    out = {}
    for mn in mods:
        m = importlib.import_module(mn)
        for k, v in sorted(m.__dict__.items()):
            if isinstance(v, type) and issubclass(v, enc.TlvModel) and v is not enc.TlvModel and v.__module__ == mn:
                out['%s.%s' % (mn.split('.')[-1], k)] = v
    return out
