# C08 -- TLV models encode to exact, minimal TLV and decode back to equal values.
# Real code executed symbolically: TlvModel.encode / encoded_length / parse, TlvModelMeta (field collection,
# IncludeBase), UintField, BoolField, BytesField, NameField, ModelField, RepeatedField, MapField codecs,
# write_tl_num / parse_tl_num / get_tl_num_size, Name.encode / decode.
from symex.api import And, Or, Not, blist, bwrap, beq, exc_sig, as_int, mkbuf
from . import ref, env, modelgen as mg

PROPERTY = 'C08'
INFO = {
    'explanation': 'C08: for each model class (shipped and synthetic; the class is the program, enumerated) and each '
                   'value plan, the real encoder output must equal, byte for byte, an independent reference encoding of '
                   'the same (symbolic) values - which implies declared order, shortest type/length numbers and minimal '
                   'integer widths - its size must equal encoded_length(), and the real decoder must return the values. '
                   'Decode side: one element inserted / duplicated / swapped at every top-level boundary, differential '
                   'against the reference decoder.',
    'bounds': {'quick': {'models': 'all shipped TlvModel classes without packet-level signature fields, 7 fixed synthetic '
                                   'classes, 12 generated from VERIF_SEED',
                         'symbolic_values': 'one or two adjacent leaf fields symbolic at a time: uint [0,2^64) or its '
                                            'fixed width, bytes 0..3, names 0..2 components, repeated/map 0..2 entries; text '
                                            'from 6 concrete strings (not solver variables)'},
               'thorough': {'models': '+ 100 generated classes'}},
    'outside': ['more than two simultaneously symbolic leaves', 'text strings as solver variables',
                'more than one long byte string per model instance (enc_elastic: one non-text byte-string leaf of '
                'solver-chosen length 0..70000, thorough 0..2^20, opaque content)', 'long TEXT values beyond the menu'],
    'assumptions': ['model classes are concrete programs (enumerated, not solver-quantified)'],
}
MANDATORY = {'enc': ['exact-minimal-encoding', 'roundtrip'], 'dec': ['decode-differential'],
             'enc_elastic': ['exact-minimal-encoding', 'roundtrip', 'end']}


def _cls(case):
    if case['src'] == 'shipped':
        return mg.shipped_models()[case['model']]
    if case['src'] == 'fixed':
        return mg.fixed_synth()[case['model']]
    return mg.synth_class(case['seed'], case['model'])[0]


def h_enc(eng, case):
    cls = _cls(case)
    schema = mg.schema_of(cls)
    plan = mg.plans(schema)[case['plan']]
    vals = mg.make_values(eng, schema, plan)
    mg.FORMS[0], mg.FORMS[1] = bool(case.get('forms')), 0
    try:
        m = mg.build(cls, schema, vals)
    finally:
        mg.FORMS[0] = False
    try:
        n = m.encoded_length()
        wire = m.encode()
    except Exception as e:
        eng.fail('encode-raises', exc_sig(e), repr(e)[:200])
        return
    expected = mg.w_model(schema, vals)
    eng.check(beq(wire, expected), 'exact-minimal-encoding')
    eng.check(len(wire) == n, 'announced-size')
    # the same model written into a caller-supplied buffer that is not zero-filled, at an offset
    try:
        nn = as_int(n)
        buf = mkbuf(nn + 5, 0xA5)
        m.encode(buf, 3)
        eng.check(beq(blist(buf)[3:3 + nn], expected), 'exact-minimal-encoding', sig='into-supplied-buffer')
        eng.check(beq(blist(buf)[:3] + blist(buf)[3 + nn:], [0xA5] * 5), 'exact-minimal-encoding',
                  sig='writes-outside-its-range')
    except Exception as e:
        eng.fail('encode-raises', 'supplied-buffer:' + exc_sig(e), repr(e)[:200])
        return
    # decode history: the parent classes of the model have decoded something before (class-level state must not leak)
    for b in cls.__mro__[1:]:
        if getattr(b, '_encoded_fields', None) and b.__name__ != 'TlvModel':
            try:
                b.parse(b'')
            except Exception:
                pass
    try:
        back = cls.parse(wire)
    except Exception as e:
        eng.fail('decode-raises', exc_sig(e), repr(e)[:200])
        return
    eng.check(mg.same_model(schema, back, vals), 'roundtrip')
    eng.observe('wire', wire)
    eng.reach('end')


def h_dec(eng, case):
    """one TLV-level edit of a valid encoding (built by the reference writer), impl vs reference decoder"""
    cls = _cls(case)
    schema = mg.schema_of(cls)
    plan = mg.plans(schema, False)[0]
    vals = mg.make_values(eng, schema, plan)
    w = mg.w_model(schema, vals)
    elems = ref.rd_seq(w, 0, len(w))
    op, k = case['op'], case['k']
    if k > len(elems) or (op != 'insert' and k >= len(elems)) or (op == 'swap' and k + 1 >= len(elems)):
        eng.reach('edit-not-applicable')
        return
    if op == 'insert':
        at = elems[k].start if k < len(elems) else len(w)
        form = case['form']
        typ = eng.int('ityp', 1, 0xFC) if form == 1 else eng.int('ityp', 0xFD, 0xFFFF)
        if case['crit'] == 'even':
            eng.assume(typ % 2 == 0)
        else:
            eng.assume(typ % 2 == 1)
        # the inserted value may land in a text field (UTF-8 decoding is C code): concrete values by choice
        val = {0: [b''], 1: [b'\x01', b'\xff'], 2: [b'\x01\x02', b'\xc3\xa9', b'\xff\xfe']}[case['vlen']]
        val = val[eng.choice(len(val), 'ival')]
        buf = w[:at] + env.num_bytes(typ, form) + [case['vlen']] + blist(val) + w[at:]
    elif op == 'dup':
        a, b = elems[k].start, elems[k].ve
        buf = w[:b] + w[a:b] + w[b:]
    else:
        a, b, c, d = elems[k].start, elems[k].ve, elems[k + 1].start, elems[k + 1].ve
        buf = w[:a] + w[c:d] + w[a:b] + w[d:]
    buf = bwrap(buf)
    try:
        got = cls.parse(buf)
    except Exception as e:
        got = None
        eng.observe('impl-reject', type(e).__name__)
    try:
        rv = ref.decode_model(blist(buf), 0, len(buf), mg.ref_schema(schema), False)
    except ref.RefReject as r:
        rv = None
        why = r.args[0]
    if got is None and rv is None:
        eng.check(True, 'decode-differential')
        eng.reach('both-reject')
        return
    if got is None:
        eng.fail('decode-differential', 'rejects-wellformed', {'op': op})
        return
    if rv is None:
        eng.fail('decode-differential', 'accepts-illformed:' + why, {'op': op})
        return
    try:
        same = mg.same_model(schema, got, rv)
    except Exception as e:
        eng.fail('decode-differential', 'compare:' + type(e).__name__, repr(e)[:100])
        return
    eng.check(same, 'decode-differential')
    eng.reach('both-accept')


# ---------------------------------------------------------------------------------------------
# one byte-string leaf of solver-chosen LENGTH (elastic buffer, symex/elastic.py)
# ---------------------------------------------------------------------------------------------
def _num_list(v):
    if v <= 0xFC:
        return [v]
    if v <= 0xFFFF:
        return [0xFD] + list(v.to_bytes(2, 'big'))
    if v <= 0xFFFFFFFF:
        return [0xFE] + list(v.to_bytes(4, 'big'))
    return [0xFF] + list(v.to_bytes(8, 'big'))


def _surrogate(eng, wire, start, end, tpath, payload, label):
    """strict reading of the element sequence wire[start:end]; the first child of type tpath[0] leads to the payload
    (directly, or through nested models).  Returns the same sequence with the payload replaced by an empty value and
    every enclosing length rewritten by the harness - or None"""
    off = start
    body = []
    seen = 0
    guard = 0
    while off < end:
        guard += 1
        if guard > 40:
            eng.fail(label, 'too-many-elements')
            return None
        try:
            et, s1, f1 = ref.rd_num(wire, off, end)
            el, s2, f2 = ref.rd_num(wire, off + s1, end)
        except (ref.RefReject, IndexError):
            eng.fail(label, 'ref-reject:element-header')
            return None
        vs = off + s1 + s2
        ve = vs + el
        eng.check(ve <= end, label, sig='element overruns its parent')
        eng.check(And(f1, f2), label, sig='number not in shortest form')
        et = as_int(et)
        if et == tpath[0] and not seen:
            seen = 1
            if len(tpath) == 1:
                eng.check(wire[vs:ve] == payload, label, sig='payload region is not the payload')
                body += _num_list(et) + [0]
            else:
                inner = _surrogate(eng, wire, vs, ve, tpath[1:], payload, label)
                if inner is None:
                    return None
                body += _num_list(et) + _num_list(len(inner)) + inner
        else:
            try:
                body += blist(wire[off:ve])
            except Exception:
                eng.fail(label, 'element-overlaps-payload')
                return None
        off = ve
    eng.check(off == end, label, sig='elements do not tile the value')
    eng.check(seen == 1, label, sig='payload element missing')
    return body


def h_enc_elastic(eng, case):
    from symex.api import mview
    from symex.core import s_len
    cls = _cls(case)
    schema = mg.schema_of(cls)
    lv = mg.leaves(schema)
    target = case['leaf']
    # every other leaf has a fixed value, except ONE integer / boolean / short byte-string neighbour (chosen by the
    # case's salt: the leaf before the target, the one after it, the first one) whose value is symbolic as well
    names = [q for q, k, a in lv]
    ti = names.index(target)
    cand = [i for i in ((ti - 1, ti + 1, 0)[case.get('salt', 0) % 3],) if 0 <= i < len(lv) and i != ti
            and lv[i][1] in ('uint', 'bool', 'bytes')]
    plan = {q: 'fixed' for q in names}
    for i in cand:
        plan[names[i]] = 'sym'
    plan[target] = 'fixed'
    vals = mg.make_values(eng, schema, plan)
    payload, n = eng.elastic('blob', 0, case['max'])
    # put the payload at the target leaf; remember the chain of type numbers that leads to it
    parts = target.split('.')
    tpath = []
    cur_s, cur_v = schema, vals
    empty = None
    for i, nm in enumerate(parts):
        ent = [e for e in cur_s if e[0] == nm][0]
        tpath.append(ent[1])
        if i == len(parts) - 1:
            cur_v[nm] = [payload] + list(cur_v[nm][1:]) if ent[2] == 'rep' else payload
        else:
            cur_s, cur_v = ent[3][0], cur_v[nm]
    try:
        m = mg.build(cls, schema, vals)
        size = m.encoded_length()
        wire = m.encode()
    except Exception as e:
        eng.fail('encode-raises', exc_sig(e), repr(e)[:200])
        return
    wv = mview(wire)
    sur = _surrogate(eng, wv, 0, s_len(wv), tpath, payload, 'exact-minimal-encoding')
    if sur is None:
        return
    # the reference encoding of the same values with an empty byte string at the target
    cur_v = vals
    for i, nm in enumerate(parts):
        if i == len(parts) - 1:
            cur_v[nm] = [b''] + list(cur_v[nm][1:]) if isinstance(cur_v[nm], list) else b''
        else:
            cur_v = cur_v[nm]
    expected = mg.w_model(schema, vals)
    eng.check(beq(sur, expected), 'exact-minimal-encoding')
    eng.check(s_len(wv) == size, 'announced-size')
    try:
        back = cls.parse(wire)
    except Exception as e:
        eng.fail('decode-raises', exc_sig(e), repr(e)[:200])
        return
    obj = back
    for nm in parts[:-1]:
        obj = getattr(obj, nm)
    got = getattr(obj, parts[-1])
    if isinstance(got, list):
        eng.check(len(got) >= 1 and (got[0] == payload), 'roundtrip', sig='payload')
        if got:
            got[0] = b''
    else:
        eng.check(got is not None and (got == payload), 'roundtrip', sig='payload')
        setattr(obj, parts[-1], b'')
    eng.check(mg.same_model(schema, back, vals), 'roundtrip')
    eng.observe('payload_octets', n)
    eng.observe('wire_octets', s_len(wv))
    eng.reach('end')


HARNESSES = {'enc': h_enc, 'dec': h_dec, 'enc_elastic': h_enc_elastic}


def _models(tier, seed):
    out = []
    for k, cls in mg.shipped_models().items():
        if mg.supported(mg.schema_of(cls)):
            out.append(('shipped', k, cls))
    for k, cls in mg.fixed_synth().items():
        out.append(('fixed', k, cls))
    n = 12 if tier == 'quick' else 112
    for i in range(n):
        cls, _ = mg.synth_class(seed, i)
        out.append(('gen', i, cls))
    return out


def cases(tier, seed):
    cs = []
    # every non-text byte-string leaf (also inside nested models and as first element of a repeated field) with a value
    # of solver-chosen length
    emax = 70000 if tier == 'quick' else 2 ** 20
    for src, key, cls in _models(tier, seed):
        if src == 'gen' and (tier == 'quick' or key >= 24):
            continue
        schema = mg.schema_of(cls)
        for q, k, a in mg.leaves(schema):
            if k == 'bytes' or (k == 'rep' and a[0] == 'bytes'):
                base = {'src': src, 'model': key, 'leaf': q, 'max': emax}
                if src == 'gen':
                    base['seed'] = seed
                for salt in ((0,) if tier == 'quick' else (0, 1, 2)):
                    cs.append(('enc_elastic', dict(base, salt=salt), {'weight': 20}))
    for src, key, cls in _models(tier, seed):
        schema = mg.schema_of(cls)
        base = {'src': src, 'model': key}
        if src == 'gen':
            base['seed'] = seed
        if src != 'gen' or key < 6:
            # the all-fixed plan with byte strings and names handed over in their other accepted representations
            cs.append(('enc', dict(base, plan=0, forms=True)))
        for p, plan in enumerate(mg.plans(schema)):
            if sum(1 for v in plan.values() if v == 'sym') >= 2:
                # two symbolic leaves: product of their path counts - start early and split over the workers
                cs.append(('enc', dict(base, plan=p), {'weight': 30, 'split_depth': 6}))
            else:
                cs.append(('enc', dict(base, plan=p)))
        nl = min(8, len(schema) + 1)
        for k in range(nl + 1):
            for form, vlen, crit in ((1, 0, 'even'), (1, 2, 'odd'), (3, 1, 'even'), (3, 0, 'odd')):
                cs.append(('dec', dict(base, op='insert', k=k, form=form, vlen=vlen, crit=crit)))
            cs.append(('dec', dict(base, op='dup', k=k)))
            cs.append(('dec', dict(base, op='swap', k=k)))
    return cs
