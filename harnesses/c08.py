# C08 -- TLV models encode to exact, minimal TLV and decode back to equal values.
# Real code executed symbolically: TlvModel.encode / encoded_length / parse, TlvModelMeta (field collection,
# IncludeBase), UintField, BoolField, BytesField, NameField, ModelField, RepeatedField, MapField codecs,
# write_tl_num / parse_tl_num / get_tl_num_size, Name.encode / decode.
from symex.api import And, Or, Not, blist, bwrap, beq, exc_sig, as_int, mkbuf
from . import ref, env, modelgen as mg

PROPERTY = 'C08'
INFO = {
    'explanation': 'C08: for each model class (shipped and synthetic; the class is the program, enumerated) and each '
                   'value plan, the real encoder output must equal, byte for byte, an independent reference encoding of '
                   'the same (symbolic) values - which implies declared order, shortest type/length numbers and minimal '
                   'integer widths - its size must equal encoded_length(), and the real decoder must return the values. '
                   'Decode side: one element inserted / duplicated / swapped at every top-level boundary, differential '
                   'against the reference decoder.',
    'bounds': {'quick': {'models': 'all shipped TlvModel classes without packet-level signature fields, 7 fixed synthetic '
                                   'classes, 12 generated from VERIF_SEED',
                         'symbolic_values': 'one or two adjacent leaf fields symbolic at a time: uint [0,2^64) or its '
                                            'fixed width, bytes 0..3, names 0..2 components, repeated/map 0..2 entries; text '
                                            'from 6 concrete strings (not solver variables)'},
               'thorough': {'models': '+ 100 generated classes'}},
    'outside': ['more than two simultaneously symbolic leaves', 'text strings as solver variables',
                'byte strings of 65536+ bytes (C01 covers payload lengths)'],
    'assumptions': ['model classes are concrete programs (enumerated, not solver-quantified)'],
}
MANDATORY = {'enc': ['exact-minimal-encoding', 'roundtrip'], 'dec': ['decode-differential']}


def _cls(case):
    if case['src'] == 'shipped':
        return mg.shipped_models()[case['model']]
    if case['src'] == 'fixed':
        return mg.fixed_synth()[case['model']]
    return mg.synth_class(case['seed'], case['model'])[0]


def h_enc(eng, case):
    cls = _cls(case)
    schema = mg.schema_of(cls)
    plan = mg.plans(schema)[case['plan']]
    vals = mg.make_values(eng, schema, plan)
    mg.FORMS[0], mg.FORMS[1] = bool(case.get('forms')), 0
    try:
        m = mg.build(cls, schema, vals)
    finally:
        mg.FORMS[0] = False
    try:
        n = m.encoded_length()
        wire = m.encode()
    except Exception as e:
        eng.fail('encode-raises', exc_sig(e), repr(e)[:200])
        return
    expected = mg.w_model(schema, vals)
    eng.check(beq(wire, expected), 'exact-minimal-encoding')
    eng.check(len(wire) == n, 'announced-size')
    # the same model written into a caller-supplied buffer that is not zero-filled, at an offset
    try:
        nn = as_int(n)
        buf = mkbuf(nn + 5, 0xA5)
        m.encode(buf, 3)
        eng.check(beq(blist(buf)[3:3 + nn], expected), 'exact-minimal-encoding', sig='into-supplied-buffer')
        eng.check(beq(blist(buf)[:3] + blist(buf)[3 + nn:], [0xA5] * 5), 'exact-minimal-encoding',
                  sig='writes-outside-its-range')
    except Exception as e:
        eng.fail('encode-raises', 'supplied-buffer:' + exc_sig(e), repr(e)[:200])
        return
    # decode history: the parent classes of the model have decoded something before (class-level state must not leak)
    for b in cls.__mro__[1:]:
        if getattr(b, '_encoded_fields', None) and b.__name__ != 'TlvModel':
            try:
                b.parse(b'')
            except Exception:
                pass
    try:
        back = cls.parse(wire)
    except Exception as e:
        eng.fail('decode-raises', exc_sig(e), repr(e)[:200])
        return
    eng.check(mg.same_model(schema, back, vals), 'roundtrip')
    eng.observe('wire', wire)
    eng.reach('end')


def h_dec(eng, case):
    """one TLV-level edit of a valid encoding (built by the reference writer), impl vs reference decoder"""
    cls = _cls(case)
    schema = mg.schema_of(cls)
    plan = mg.plans(schema, False)[0]
    vals = mg.make_values(eng, schema, plan)
    w = mg.w_model(schema, vals)
    elems = ref.rd_seq(w, 0, len(w))
    op, k = case['op'], case['k']
    if k > len(elems) or (op != 'insert' and k >= len(elems)) or (op == 'swap' and k + 1 >= len(elems)):
        eng.reach('edit-not-applicable')
        return
    if op == 'insert':
        at = elems[k].start if k < len(elems) else len(w)
        form = case['form']
        typ = eng.int('ityp', 1, 0xFC) if form == 1 else eng.int('ityp', 0xFD, 0xFFFF)
        if case['crit'] == 'even':
            eng.assume(typ % 2 == 0)
        else:
            eng.assume(typ % 2 == 1)
        # the inserted value may land in a text field (UTF-8 decoding is C code): concrete values by choice
        val = {0: [b''], 1: [b'\x01', b'\xff'], 2: [b'\x01\x02', b'\xc3\xa9', b'\xff\xfe']}[case['vlen']]
        val = val[eng.choice(len(val), 'ival')]
        buf = w[:at] + env.num_bytes(typ, form) + [case['vlen']] + blist(val) + w[at:]
    elif op == 'dup':
        a, b = elems[k].start, elems[k].ve
        buf = w[:b] + w[a:b] + w[b:]
    else:
        a, b, c, d = elems[k].start, elems[k].ve, elems[k + 1].start, elems[k + 1].ve
        buf = w[:a] + w[c:d] + w[a:b] + w[d:]
    buf = bwrap(buf)
    try:
        got = cls.parse(buf)
    except Exception as e:
        got = None
        eng.observe('impl-reject', type(e).__name__)
    try:
        rv = ref.decode_model(blist(buf), 0, len(buf), mg.ref_schema(schema), False)
    except ref.RefReject as r:
        rv = None
        why = r.args[0]
    if got is None and rv is None:
        eng.check(True, 'decode-differential')
        eng.reach('both-reject')
        return
    if got is None:
        eng.fail('decode-differential', 'rejects-wellformed', {'op': op})
        return
    if rv is None:
        eng.fail('decode-differential', 'accepts-illformed:' + why, {'op': op})
        return
    try:
        same = mg.same_model(schema, got, rv)
    except Exception as e:
        eng.fail('decode-differential', 'compare:' + type(e).__name__, repr(e)[:100])
        return
    eng.check(same, 'decode-differential')
    eng.reach('both-accept')


HARNESSES = {'enc': h_enc, 'dec': h_dec}


def _models(tier, seed):
    out = []
    for k, cls in mg.shipped_models().items():
        if mg.supported(mg.schema_of(cls)):
            out.append(('shipped', k, cls))
    for k, cls in mg.fixed_synth().items():
        out.append(('fixed', k, cls))
    n = 12 if tier == 'quick' else 112
    for i in range(n):
        cls, _ = mg.synth_class(seed, i)
        out.append(('gen', i, cls))
    return out


def cases(tier, seed):
    cs = []
    for src, key, cls in _models(tier, seed):
        schema = mg.schema_of(cls)
        base = {'src': src, 'model': key}
        if src == 'gen':
            base['seed'] = seed
        if src != 'gen' or key < 6:
            # the all-fixed plan with byte strings and names handed over in their other accepted representations
            cs.append(('enc', dict(base, plan=0, forms=True)))
        for p, plan in enumerate(mg.plans(schema)):
            if sum(1 for v in plan.values() if v == 'sym') >= 2:
                # two symbolic leaves: product of their path counts - start early and split over the workers
                cs.append(('enc', dict(base, plan=p), {'weight': 30, 'split_depth': 6}))
            else:
                cs.append(('enc', dict(base, plan=p)))
        nl = min(8, len(schema) + 1)
        for k in range(nl + 1):
            for form, vlen, crit in ((1, 0, 'even'), (1, 2, 'odd'), (3, 1, 'even'), (3, 0, 'odd')):
                cs.append(('dec', dict(base, op='insert', k=k, form=form, vlen=vlen, crit=crit)))
            cs.append(('dec', dict(base, op='dup', k=k)))
            cs.append(('dec', dict(base, op='swap', k=k)))
    return cs
