#!/bin/bash
# tools/run_seeds.sh [jobs]  -- mutation regression: every seeded change under seeded/ must be confirmed (demo 0/1, tests
# green) and DETECTED (exit 1 with a VIOLATION line) by the quick check of its property.  Scratch worktrees under /tmp only.
cd "$(dirname "$0")/.."
J="${1:-3}"
OUT="${SEED_LOG:-/tmp/seedrun/summary.$$}"
mkdir -p /tmp/seedrun; : > "$OUT"
one() {
  d="$1"; p="$(basename "$d" | cut -c1-3)"
  r="$(VERIF_JOBS=${VERIF_JOBS:-6} tools/try_seed.sh "$p" "$d/patch.diff" "$d/demo.py" quick 2>&1)"
  demo="$(echo "$r" | grep -c 'demo without patch: exit 0 ; with patch: exit 1 ; tests: 119 passed')"
  chk="$(echo "$r" | grep -o 'check C[0-9]* quick exit [0-9]*' | awk '{print $NF}')"
  viol="$(echo "$r" | grep -c '^VIOLATION')"
  echo "$(basename "$d") confirmed=$demo check_exit=$chk violations=$viol" >> "$2"
}
export -f one
ls -d seeded/C* | xargs -P "$J" -I{} bash -c 'one {} '"$OUT"
sort "$OUT"
echo "seeds: $(wc -l < "$OUT")  detected: $(grep -c 'check_exit=1 violations=[1-9]' "$OUT")  confirmed: $(grep -c 'confirmed=1' "$OUT")"
