#!/usr/bin/env python3
# regenerates MANIFEST.json from the table below
import json, os
HERE = os.path.dirname(os.path.dirname(os.path.abspath(__file__)))
TECH = 'bounded symbolic execution of the real Python source with z3 (replay-based path exploration; solver decides branch feasibility and property obligations; counterexamples replayed natively)'
NOTE = ('Trusted: CPython 3.12, z3 (sampled queries re-decided by z3 4.8.12 and cvc5), the namespace shims of symex/core.py '
        '(struct/int/bytes/bytearray/memoryview/isinstance/len; validated by replaying every explored path natively and '
        'comparing observations), the reference oracle in harnesses/, and for signed packets the ideal hash/signature model '
        'of symex/crypto.py. Nothing is claimed outside the bounds listed in the evidence file.')
CLAIMED = {
    'C01': ('5-C01', 'For every Interest/Data inside the stated bounds (all 64-bit field values, all name/payload byte values, '
            'all optional-field shapes, every payload LENGTH in [0, 70000] as a solver variable on elastic buffers - thorough '
            '[0, 2^20] - plus enumerated lengths around 253/65536 with real payload octets, every real ECDSA signature length) '
            'the solver shows that the emitted wire is one exact well-formed TLV and that parsing returns '
            'the inputs; bounded, not a proof.'),
    'C07': ('5-C07', 'Differential check against an independent strict decoder: all buffers up to the stated length are '
            'decided by the solver path by path, and every TL number of valid packets is made a solver variable in every '
            'encoding form; accepts => reference accepts, and extracted fields equal. Bounded.'),
    'C08': ('5-C08', 'For every shipped and generated model class and every value plan the solver shows the encoder output equals '
            'an independent reference encoding for all values of the symbolic leaves, and that decoding returns them; decode-side '
            'edits are decided differentially; one byte-string leaf at a time has a solver-chosen length up to 70000 (2^20). '
            'Model classes are enumerated programs; bounded.'),
    'C09': ('5-C09', 'Byte-level name identities, prefix test and canonical ordering are decided as formula equivalences over all '
            'component types/values in the bound; URI round trips are decided by solver-driven enumeration of every byte that '
            'reaches string formatting. Bounded.'),
    'C03': ('5-C03', 'Scenarios of Interests and external events run on the real asyncio machinery with a solver-controlled '
            'clock: every relative order of packet arrival, validator completion, deadline expiry and cancellation inside the '
            'bounds is one decided path; outcomes are compared with a reference simulator of the statement. Bounded.'),
    'C05': ('5-C05', 'Consumer and producer decision tables of the statement are checked for every validator verdict, every '
            'latency/arrival/lifetime relation (solver-decided) and every single-byte corruption of the parameters digest '
            '(symbolic position and value through the ideal hash). Bounded.'),
    'C06': ('5-C06', 'The real StreamFace.run loop and both receive callbacks are executed on fully symbolic byte strings and on '
            'every single-byte / truncation mutation of valid packets, in four application states; framing is compared with a '
            'reference splitter for every chunking. The solver decides, path by path, that no exception class escapes. Bounded.'),
    'C04': ('5-C04', 'Attach/detach histories (solver-pruned exhaustive choice over prefixes, representations and operations) '
            'are compared with longest-prefix set semantics; the reply-deadline clause is decided for all lifetimes, delays and '
            'clock offsets. Trie keys are hashed, so names are concrete per path (stated). Bounded.'),
    'C10': ('5-C10', 'Envelope codec, wrapped-vs-bare equivalence on two fresh applications, Nack reason delivery for all 2^64 '
            'reasons, fragment rejection and token/reply pairing for symbolic tokens are decided per path. Bounded.'),
    'C11': ('5-C11', 'Schemas are enumerated programs; for each, the name is symbolic (all lengths up to the longest rule + 1, all '
            'component values) and the set of (rule, bindings) reported by the real checker - before and after save/load - is '
            'compared with a reference evaluator working on the source text. Bounded.'),
    'C12': ('5-C12', 'Packet and key names both symbolic; Checker.check is compared with the signing relation evaluated by the '
            'reference on the source text for all length pairs in the bound. Bounded.'),
    'C13': ('5-C13', 'One field of each compiled model is a solver variable (or absent) at every position: the loader must raise '
            'LvsModelError iff the documented sanity rules are broken and queries on accepted models terminate within a step '
            'budget. Ill-formed schema texts are concrete programs: enumerated and reported separately (not solver-quantified).'),
    'C18': ('5-C18', 'One handler step from an arbitrary valid state (symbolic vectors through the real codec), the timer step, a whole '
            'suppression period on the virtual clock and publication are compared with the entry-wise-maximum model for all '
            'sequence numbers in the bound. Bounded.'),
    'C19': ('5-C19', 'The real fetch generator runs against a stub producer; discovery segment number (64-bit symbolic), every loss '
            'pattern (one solver Boolean per attempt), retry limit, object size and final-block marker are explored. Bounded.'),
    'C17': ('5-C17', 'Concurrent register/unregister calls against a stub forwarder with every reply kind; every clock reading is a '
            'fresh solver variable (non-decreasing, advancing with virtual time); command Interests are decoded from the face output '
            'with the reference reader; success iff status 200 decided for all 64-bit status codes. Bounded.'),
    'C14': ('5-C14', 'Certificate hierarchies built by the real code on the ideal signature model; one deviation per run at a link '
            'chosen by the engine (signature byte symbolic in position and value); verdict compared with the chain predicate; two '
            'default-constructed validator instances in every order. The symbolic axis is mostly a finite fault vector (stated). Bounded.'),
    'C16': ('5-C16', 'Certificates produced by the real functions with symbolic signature length, key bytes, a public key of solver-chosen '
            'LENGTH (0..70000, thorough 2^20), key-name bytes and clock; read by the reference reader, verified by the real verify_* code on ideal '
            'primitives and re-parsed. Date formatting is C code: concrete instants at boundaries (stated). Bounded.'),
    'C20': ('5-C20', 'Presence of every environment variable, existence of every candidate file / store location and presence of each '
            'file key are solver Booleans; result compared with the precedence decision table; transport URIs over all supported '
            'and unsupported schemes. Strings are concrete: the solver explores the presence/existence vector (stated). Bounded.'),
    'C02': ('5-C02', 'A recording wrapper captures the views handed to each shipped signer; they, the parser-reported ranges and the '
            'digest are compared symbolically with the signed portion delimited by the reference reader; every single-byte '
            'substitution (symbolic value), truncation and TLV-level edit of signed packets must be rejected by the parser or the '
            'real verifier (on the ideal, unforgeable primitives) unless signed portion and signature are unchanged. Bounded.'),
}
NOT_YET = 'check not built yet in this revision of /verif (planned in DESIGN.md section 5)'
NA = {
    'C15': 'keychain state and mechanism live inside SQLite (C engine, triggers, file system): a symbolic value cannot cross '
           'sqlite3.Connection.execute and a hand-written SMT model of SQLite would verify the model, not the code (DESIGN.md 5-C15)',
}
props = [json.loads(l)['id'] for l in open(os.path.join(HERE, 'properties.jsonl'))]
checks = []
na = []
for p in props:
    if p in CLAIMED:
        ref, text = CLAIMED[p]
        checks.append({
            'property_id': p, 'quick_cmd': './check %s quick' % p, 'thorough_cmd': './check %s thorough' % p,
            'evidence_file': 'evidence/%s.json' % p, 'replay_cmd_template': './check --replay {path}',
            'engine': 'symex', 'level_claimed': {'category': 'other', 'text': text, 'design_ref': 'DESIGN.md ' + ref},
            'level_note': NOTE, 'technique': TECH})
    else:
        na.append({'property_id': p, 'reason': NA.get(p, NOT_YET)})
m = {
    'version': 1,
    'setup_cmd': './check --setup',
    'hooks': {'guard': 'PYTHON_NDN_VERIF', 'enable': 'no source hooks: instrumentation is injected at import time by symex/loader.py '
              '(ndn.* loaded from /repo/src with shimmed module namespaces); the variable is exported by ./check and unused by the library',
              'baseline_off_cmd': 'cd /repo && /venv/bin/python -m pytest -ra -q -p no:cacheprovider --timeout=900 --continue-on-collection-errors',
              'source_commits': [], 'add_only': True},
    'engines': [{'name': 'symex', 'path': 'symex/', 'serves_properties': sorted(CLAIMED),
                 'kind_free_text': 'replay-based symbolic executor for unmodified Python over z3 (SInt/SBool/SBytes/SFix proxies, '
                                   'virtual-time asyncio loop, ideal crypto model, native replay worker)'}],
    'checks': checks,
    'not_applicable': na,
    'notes': 'Exit codes of ./check: 0 held on everything explored, 1 violation (VIOLATION line), 3 harness/encoding error (never a violation).',
}
json.dump(m, open(os.path.join(HERE, 'MANIFEST.json'), 'w'), indent=1)
print('claimed', sorted(CLAIMED), 'na', len(na))
