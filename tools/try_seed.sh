#!/bin/bash
# tools/try_seed.sh <property> <patch.diff> <demo.py> [tier]   -- mutation experiment on a scratch worktree (never /repo)
# 1. fresh worktree of /repo HEAD under /tmp, 2. demo passes without the patch, 3. apply, 4. repository test-suite must
# still pass, 5. demo must fail, 6. run the property's check with VERIF_REPO pointing at the scratch tree (evidence goes
# to a scratch directory), 7. remove the worktree.
set -u
P="$1"; PATCH="$(readlink -f "$2")"; DEMO="$(readlink -f "$3")"; TIER="${4:-quick}"
WT="/tmp/seedrun/$P.$$"
mkdir -p /tmp/seedrun
git -C /repo worktree add -q "$WT" HEAD || exit 9
trap 'git -C /repo worktree remove --force "$WT" >/dev/null 2>&1; rm -rf "/tmp/seedrun/ev.$$"' EXIT
cp "$DEMO" "$WT/demo.py"
( cd "$WT" && PYTHONPATH="$WT/src" timeout 300 /venv/bin/python demo.py >/tmp/seedrun/demo0.$$ 2>&1 ); D0=$?
( cd "$WT" && git apply "$PATCH" ) || { echo "PATCH DOES NOT APPLY"; exit 8; }
( cd "$WT" && PYTHONPATH="$WT/src" timeout 900 /venv/bin/python -m pytest -q -p no:cacheprovider --timeout=900 tests 2>&1 | tail -1 ) > /tmp/seedrun/tests.$$; 
( cd "$WT" && PYTHONPATH="$WT/src" timeout 300 /venv/bin/python demo.py >/tmp/seedrun/demo1.$$ 2>&1 ); D1=$?
echo "demo without patch: exit $D0 ; with patch: exit $D1 ; tests: $(cat /tmp/seedrun/tests.$$)"
tail -3 /tmp/seedrun/demo1.$$
mkdir -p "/tmp/seedrun/ev.$$"
cd /verif && VERIF_REPO="$WT" VERIF_EVIDENCE_DIR="/tmp/seedrun/ev.$$" timeout 3000 ./check "$P" "$TIER" > /tmp/seedrun/check.$$ 2>&1; C=$?
echo "check $P $TIER exit $C"
grep -E "^VIOLATION|^  harness=|^KNOWN|HARNESS-ERROR|^$P " /tmp/seedrun/check.$$ | cut -c1-400 | head -20
rm -f /tmp/seedrun/demo0.$$ /tmp/seedrun/demo1.$$ /tmp/seedrun/tests.$$ /tmp/seedrun/check.$$
