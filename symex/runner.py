# symex.runner -- runs the harnesses of one property over a worker pool, replays every explored path
# natively, classifies violations (known finding / new), cross-checks queries with other solvers and
# writes the evidence file.
import concurrent.futures as cf
import fnmatch
import hashlib
import importlib
import json
import multiprocessing as mp
import os
import shutil
import subprocess
import sys
import tempfile
import time
import traceback

HERE = os.path.dirname(os.path.dirname(os.path.abspath(__file__)))
EVID = os.environ.get('VERIF_EVIDENCE_DIR') or os.path.join(HERE, 'evidence')   # (redirected only by tools/try_seed.sh)
KNOWN = os.path.join(HERE, 'known_findings.json')

EXIT_OK, EXIT_VIOLATION, EXIT_HARNESS = 0, 1, 3

_W = {}


def _worker_init(repo):
    os.environ['VERIF_REPO'] = repo
    sys.path.insert(0, HERE)
    from symex import loader, crypto
    loader.install('sym')
    crypto.install()
    _W['native'] = None


def _native():
    if _W.get('native') is None:
        from symex.native import NativeClient
        _W['native'] = NativeClient()
    return _W['native']


def _jsonable(v):
    if isinstance(v, (bytes, bytearray, memoryview)):
        return 'hex:' + bytes(v).hex()
    if isinstance(v, (list, tuple)):
        return [_jsonable(x) for x in v]
    if isinstance(v, dict):
        return {str(k): _jsonable(x) for k, x in v.items()}
    if isinstance(v, (int, str, bool, float)) or v is None:
        return v
    return repr(v)


def run_task(task):
    """one (harness, case, prefixes) unit of exploration inside a worker process"""
    from symex import core, crypto
    t0 = time.time()
    module, hname, case = task['module'], task['harness'], task['case']
    opts = task['opts']
    mod = importlib.import_module(module)
    fn = mod.HARNESSES[hname]
    eng = core.Engine(query_timeout_ms=opts['query_timeout_ms'], max_paths=opts['max_paths'],
                      max_fork=opts.get('max_fork', 300), seed=opts.get('seed', 0))
    eng.deadline = t0 + opts['task_timeout_s']
    if opts.get('global_deadline'):
        # whole-run budget: what is left over is reported as capped work (INCOMPLETE, exhaustive=false), never success
        eng.deadline = min(eng.deadline, opts['global_deadline'])
    exports = []
    if opts.get('export_every'):
        eng.export_every = opts['export_every']

        def hook(text, res):
            if len(exports) < opts.get('export_max', 4):
                exports.append((text, res))
        eng.export_hook = hook
    res = {'harness': hname, 'case': case, 'violations': [], 'mismatch': [], 'errors': [],
           'replayed': 0, 'native_labels': {}, 'samples': [], 'funcs': [], 'frontier': None}
    funcs = set()
    state = {'profiled': False}
    replay_every = max(1, opts.get('replay_every', 1))
    counter = {'n': 0}

    def body(e):
        crypto.reset()
        prof = not state['profiled']
        if prof:
            state['profiled'] = True
            root = os.path.join(os.environ.get('VERIF_REPO', '/repo'), 'src') + os.sep

            def tracer(frame, event, arg):
                if event == 'call':
                    f = frame.f_code.co_filename
                    if f.startswith(root):
                        funcs.add('%s:%s' % (f[len(root):], frame.f_code.co_qualname))
            sys.setprofile(tracer)
        try:
            fn(e, case)
        finally:
            if prof:
                sys.setprofile(None)
        if e.aborted:
            return
        # completed path: model + native replay
        counter['n'] += 1
        nviol = len(e.path_viol)
        expected_failed = sorted(set((v.label, v.sig) for v in e.path_viol if v.kind == 'fail'))
        for v in e.path_viol:
            _handle_violation(v)
        e.path_viol = []
        if counter['n'] % replay_every and not nviol:
            return
        rec = e.finish_path()
        if rec is None:
            return
        if len(res['samples']) < 3:
            res['samples'].append({'harness': hname, 'case': _jsonable(case), 'inputs': rec['inputs'],
                                   'choices': rec['decisions'], 'labels': rec['labels'],
                                   'observations': _jsonable(rec['obs'])})
        r = _native().run(module, hname, case, rec['inputs'], rec['decisions'], opts.get('native_timeout_s', 60))
        res['replayed'] += 1
        if r[0] != 'ok':
            res['mismatch'].append({'kind': 'native-error', 'inputs': rec['inputs'], 'choices': rec['decisions'],
                                    'detail': r[1][-1500:]})
            return
        _, nobs, nfailed, nlabels = r
        sobs = [(k, core.norm_obs(v)) for k, v in rec['obs']]
        if sorted(set((f[0], f[1]) for f in nfailed)) != expected_failed:
            res['mismatch'].append({'kind': 'native-failed-check', 'inputs': rec['inputs'],
                                    'choices': rec['decisions'],
                                    'detail': 'native=%r expected=%r' % (nfailed, expected_failed)})
        elif sobs != nobs:
            res['mismatch'].append({'kind': 'observation', 'inputs': rec['inputs'], 'choices': rec['decisions'],
                                    'detail': 'sym=%r native=%r' % (sobs, nobs)})
        elif rec['labels'] != nlabels:
            res['mismatch'].append({'kind': 'labels', 'inputs': rec['inputs'], 'choices': rec['decisions'],
                                    'detail': 'sym=%r native=%r' % (rec['labels'], nlabels)})
        else:
            for lb in nlabels:
                res['native_labels'][lb] = res['native_labels'].get(lb, 0) + 1

    seen_keys = {}

    def _handle_violation(v):
        key = (v.label, v.sig)
        ent = seen_keys.get(key)
        if ent is None:
            ent = {'label': v.label, 'sig': v.sig, 'detail': v.detail, 'count': 0, 'tried': 0,
                   'reproduced': None, 'inputs': v.inputs, 'choices': v.decisions, 'native': None}
            seen_keys[key] = ent
            res['violations'].append(ent)
        ent['count'] += 1
        if ent['reproduced'] or ent['tried'] >= 3:
            return
        ent['tried'] += 1
        r = _native().run(module, hname, case, v.inputs, v.decisions, opts.get('native_timeout_s', 60))
        if r[0] == 'ok' and any(f[0] == v.label and f[1] == v.sig for f in r[2]):
            ent['reproduced'] = True
            ent['inputs'] = v.inputs
            ent['choices'] = v.decisions
            ent['detail'] = v.detail
        else:
            ent['native'] = (r[1][-1200:] if r[0] != 'ok' else 'native failed checks: %r' % (r[2],))
            if ent['reproduced'] is None:
                ent['reproduced'] = False

    # violations raised on paths that abort right after (check() with no remaining values) are not seen
    # by body(); wrap explore so that they are handled as well
    def wrapped(e):
        try:
            body(e)
        finally:
            if e.path_viol:
                for v in e.path_viol:
                    _handle_violation(v)
                e.path_viol = []
    try:
        frontier = eng.explore(wrapped, prefixes=task.get('prefixes'), max_depth=task.get('max_depth'))
        if task.get('max_depth') is not None:
            res['frontier'] = frontier
    except core.HarnessError as ex:
        res['errors'].append('HarnessError: %s\n%s' % (ex, traceback.format_exc()[-2500:]))
    except Exception:
        res['errors'].append(traceback.format_exc()[-3000:])
    finally:
        core.ENG = None
    res['stats'] = eng.stats.asdict()
    res['funcs'] = sorted(funcs)
    res['exports'] = exports
    res['wall_s'] = time.time() - t0
    return res


def run_batch(tasks):
    return [run_task(t) for t in tasks]


# ---------------------------------------------------------------------------------------------------
def load_known():
    if not os.path.exists(KNOWN):
        return {'findings': [], 'fixed': []}
    with open(KNOWN) as f:
        return json.load(f)


def match_known(known, pid, harness, label, sig):
    for k in known.get('findings', []):
        if k['property'] != pid:
            continue
        if not fnmatch.fnmatch(harness, k.get('harness', '*')):
            continue
        if not fnmatch.fnmatch(label, k.get('label', '*')):
            continue
        if not fnmatch.fnmatch(sig or '', k.get('sig', '*')):
            continue
        return k
    return None


def cross_check(exports, limit):
    """re-decide exported queries with the z3 4.8.12 binary and cvc5; returns (n, agree, notes)"""
    n = agree = 0
    notes = []
    z3bin = shutil.which('z3') or '/usr/bin/z3'
    cvc5 = shutil.which('cvc5')
    tmp = tempfile.mkdtemp(prefix='symex-x-')
    try:
        for i, (text, res) in enumerate(exports[:limit]):
            fn = os.path.join(tmp, 'q%d.smt2' % i)
            with open(fn, 'w') as f:
                f.write(text)
            for name, cmd in (('z3-4.8.12', [z3bin, '-T:30', fn]), ('cvc5', [cvc5, '--tlimit=30000', fn] if cvc5 else None)):
                if cmd is None:
                    continue
                try:
                    out = subprocess.run(cmd, capture_output=True, text=True, timeout=60).stdout
                except Exception as ex:
                    notes.append('%s: %s' % (name, ex))
                    continue
                n += 1
                first = [l for l in out.splitlines() if l.strip() in ('sat', 'unsat', 'unknown')]
                if '(error' in out:
                    notes.append('%s: error output on q%d: %s' % (name, i, out[:200]))
                elif first and first[0] == res:
                    agree += 1
                elif first and first[0] == 'unknown' or not first:
                    notes.append('%s: inconclusive on q%d (%s)' % (name, i, out[:80].strip()))
                else:
                    notes.append('%s: DISAGREES on q%d: %s vs %s' % (name, i, first[0], res))
    finally:
        shutil.rmtree(tmp, ignore_errors=True)
    return n, agree, notes


def run_property(pid, tier, seed=0, only=None, jobs=None, verbose=False):
    t0 = time.time()
    repo = os.environ.get('VERIF_REPO', '/repo')
    os.environ['VERIF_REPO'] = repo
    sys.path.insert(0, HERE)
    from symex import loader, crypto
    loader.install('sym')
    crypto.install()
    module = 'harnesses.%s' % pid.lower()
    mod = importlib.import_module(module)
    cases = mod.cases(tier, seed)
    if only:
        cases = [c for c in cases if fnmatch.fnmatch(c[0], only)]
    defaults = {'query_timeout_ms': 20000 if tier == 'quick' else 120000, 'max_paths': 2000000,
                'task_timeout_s': 300 if tier == 'quick' else 3000, 'replay_every': 1,
                'global_deadline': t0 + float(os.environ.get('VERIF_BUDGET_S', 1500 if tier == 'quick' else 6 * 3600)),
                'export_every': 499 if tier == 'quick' else 199, 'export_max': 3, 'seed': seed}
    defaults.update(getattr(mod, 'OPTS', {}).get(tier, {}))
    jobs = jobs or int(os.environ.get('VERIF_JOBS', '0')) or min(16, os.cpu_count() or 4)
    tasks = []
    for c in cases:
        hname, case = c[0], c[1]
        copts = dict(defaults)
        if len(c) > 2:
            copts.update(c[2])
        tasks.append({'module': module, 'harness': hname, 'case': case, 'opts': copts,
                      'max_depth': copts.get('split_depth')})
    results = []
    ctx = mp.get_context('spawn')
    # heavy tasks first and alone, light ones in batches (per-task overhead dominates tiny cases)
    tasks.sort(key=lambda t: -t['opts'].get('weight', 1))
    batches = []
    cur, curw = [], 0
    bw = max(1, sum(t['opts'].get('weight', 1) for t in tasks) // (jobs * 6))
    for t in tasks:
        w = t['opts'].get('weight', 1)
        if w >= bw or t.get('max_depth') is not None:
            batches.append([t])
            continue
        cur.append(t)
        curw += w
        if curw >= bw:
            batches.append(cur)
            cur, curw = [], 0
    if cur:
        batches.append(cur)
    with cf.ProcessPoolExecutor(max_workers=jobs, mp_context=ctx, initializer=_worker_init,
                                initargs=(repo,)) as ex:
        pending = {ex.submit(run_batch, b): b for b in batches}
        while pending:
            done, _ = cf.wait(list(pending), return_when=cf.FIRST_COMPLETED)
            finished = []
            for fut in done:
                b = pending.pop(fut)
                try:
                    rs = fut.result()
                except Exception:
                    rs = [{'harness': t['harness'], 'case': t['case'], 'violations': [], 'mismatch': [],
                           'errors': ['worker crashed: ' + traceback.format_exc()[-1500:]], 'replayed': 0,
                           'native_labels': {}, 'samples': [], 'funcs': [], 'frontier': None,
                           'stats': None, 'exports': [], 'wall_s': 0} for t in b]
                finished.extend(zip(b, rs))
            for t, r in finished:
                results.append(r)
                if verbose:
                    st = r.get('stats') or {}
                    print('  [%s %s] paths=%s viol=%d mism=%d err=%d %.1fs' % (
                        r['harness'], json.dumps(_jsonable(r['case']))[:80], st.get('paths'), len(r['violations']),
                        len(r['mismatch']), len(r['errors']), r['wall_s']), flush=True)
                if r.get('frontier'):
                    fr = r['frontier']
                    chunk = max(1, len(fr) // (jobs * 4))
                    for i in range(0, len(fr), chunk):
                        nt = dict(t)
                        nt['max_depth'] = None
                        nt['prefixes'] = fr[i:i + chunk]
                        pending[ex.submit(run_batch, [nt])] = [nt]
    return summarize(pid, tier, seed, mod, results, time.time() - t0, verbose)


def summarize(pid, tier, seed, mod, results, wall, verbose):
    from symex.core import Stats
    known = load_known()
    total = Stats()
    per_h = {}
    funcs = set()
    samples = []
    replayed = 0
    mismatches = []
    errors = []
    native_labels = {}
    exports = []
    viol = {}
    for r in results:
        h = per_h.setdefault(r['harness'], {'cases': 0, 'paths': 0, 'checks': 0, 'wall_s': 0.0})
        h['cases'] += 1
        h['wall_s'] += r['wall_s']
        st = r.get('stats')
        if st:
            s = Stats()
            s.__dict__.update(st)
            total.merge(s)
            h['paths'] += st['paths']
            h['checks'] += st['checks']
        funcs.update(r['funcs'])
        for sm in r['samples']:
            if len(samples) < 8:
                samples.append(sm)
        replayed += r['replayed']
        for m in r['mismatch']:
            m = dict(m)
            m['harness'] = r['harness']
            m['case'] = _jsonable(r['case'])
            mismatches.append(m)
        for e in r['errors']:
            errors.append('[%s %s] %s' % (r['harness'], _jsonable(r['case']), e))
        for k, v in r['native_labels'].items():
            native_labels[k] = native_labels.get(k, 0) + v
        exports.extend(r.get('exports') or [])
        for v in r['violations']:
            key = (r['harness'], v['label'], v['sig'])
            ent = viol.get(key)
            if ent is None:
                ent = viol[key] = {'harness': r['harness'], 'label': v['label'], 'sig': v['sig'], 'count': 0,
                                   'reproduced': False, 'example': None, 'native': None}
            ent['count'] += v['count']
            if v['reproduced'] and not ent['reproduced']:
                ent['reproduced'] = True
                ent['example'] = {'case': r['case'], 'inputs': v['inputs'], 'choices': v['choices'],
                                  'detail': v['detail']}
            elif not ent['reproduced'] and ent['native'] is None:
                ent['native'] = v.get('native')
                ent['example'] = {'case': r['case'], 'inputs': v['inputs'], 'choices': v['choices'],
                                  'detail': v['detail']}
    # vacuity guards
    mandatory = getattr(mod, 'MANDATORY', {})
    for hname, labels in mandatory.items():
        if hname not in per_h:
            continue
        for lb in labels:
            if not total.labels.get(lb):
                errors.append('vacuity: mandatory label %r of harness %s was never reached' % (lb, hname))
            elif not native_labels.get(lb):
                errors.append('vacuity: mandatory label %r of harness %s was never reached by a native replay'
                              % (lb, hname))
    nx, agree, xnotes = cross_check(exports, 6 if tier == 'quick' else 40)
    for n in xnotes:
        if 'DISAGREES' in n or 'error output' in n:
            errors.append('cross-solver: ' + n)
    # classify violations
    lines = []
    new_viol = 0
    known_hits = 0
    known_agg = {}
    os.makedirs(os.path.join(EVID, 'replay'), exist_ok=True)
    module = 'harnesses.%s' % pid.lower()
    for key, ent in sorted(viol.items()):
        if not ent['reproduced']:
            errors.append('candidate violation did not reproduce natively (encoding error): %s/%s/%s :: %s'
                          % (ent['harness'], ent['label'], ent['sig'], (ent['native'] or '')[-600:]))
            continue
        k = match_known(known, pid, ent['harness'], ent['label'], ent['sig'])
        if k is not None:
            known_hits += 1
            agg = known_agg.setdefault(id(k), [k, 0, set()])
            agg[1] += ent['count']
            agg[2].add(ent['harness'])
            continue
        new_viol += 1
        h = hashlib.sha1(repr(key).encode()).hexdigest()[:10]
        path = os.path.join(EVID, 'replay', '%s-%s-%s.json' % (pid, ent['harness'], h))
        with open(path, 'w') as f:
            json.dump({'property': pid, 'module': module, 'harness': ent['harness'],
                       'case': ent['example']['case'], 'inputs': ent['example']['inputs'],
                       'choices': ent['example']['choices'], 'label': ent['label'], 'sig': ent['sig'],
                       'detail': _jsonable(ent['example']['detail']), 'paths': ent['count']}, f, indent=1,
                      default=_jsonable)
        lines.append('VIOLATION property=%s replay=%s' % (pid, path))
        lines.append('  harness=%s label=%s sig=%s paths=%d detail=%s' % (
            ent['harness'], ent['label'], ent['sig'], ent['count'], str(ent['example']['detail'])[:300]))
    for k, cnt, hs in known_agg.values():
        lines.insert(0, 'KNOWN-FINDING: property=%s %s [label=%s sig=%s; %d paths in %s]' % (
            pid, k['what'], k.get('label'), k.get('sig'), cnt, ','.join(sorted(hs))))
    for m in mismatches[:10]:
        if verbose:
            print('MISMATCH-INPUTS', m['harness'], m.get('inputs'), m.get('choices'), flush=True)
        errors.append('native replay mismatch (%s) in %s %s: %s' % (m['kind'], m['harness'], m['case'],
                                                                      m['detail'][:700]))
    if len(mismatches) > 10:
        errors.append('... %d more native replay mismatches' % (len(mismatches) - 10))
    exhaustive = (total.capped == 0 and total.inconclusive == 0 and total.q_unknown == 0 and not errors)
    distinct = sum(v for k, v in total.sym_labels.items())
    info = getattr(mod, 'INFO', {})
    ev = {
        'property_id': pid, 'tier': tier, 'seed': seed, 'level': 'other',
        'coverage': {
            'explanation': 'bounded symbolic execution of the real python-ndn source (imported from %s/src on '
                           'this run); every feasible path within the stated bounds is decided by z3 (branch '
                           'feasibility and property obligations), every completed path is replayed natively on '
                           'concrete model values against the unshimmed library. %s'
                           % (os.environ.get('VERIF_REPO', '/repo'), info.get('explanation', '')),
            'bounds': info.get('bounds', {}).get(tier, info.get('bounds')),
            'outside_claim': info.get('outside', []),
            'evaluations': total.paths,
            'distinct_nontrivial': distinct,
            'rule': 'evaluations = explored paths (each stands for all input values that drive the code the same '
                    'way); distinct_nontrivial = property obligations whose formula contained solver variables '
                    'and were discharged by a solver query (unsat of the negation), counted per path and label',
            'samples': samples,
            'traces_validated_against_impl': replayed,
            'exhaustive': exhaustive,
            'functions_encoded': sorted(funcs),
            'harnesses': per_h,
            'labels_reached': total.labels,
            'labels_reached_native': native_labels,
            'symbolic_obligations_per_label': total.sym_labels,
            'queries': {'sat': total.q_sat, 'unsat': total.q_unsat, 'unknown': total.q_unknown},
            'solver_wall_s': round(total.solver_s, 2),
            'paths_aborted_infeasible_or_assumed': total.aborted,
            'paths_inconclusive': total.inconclusive,
            'work_capped': total.capped,
            'cross_solver': {'queries_rechecked': nx, 'agree': agree, 'notes': xnotes[:10],
                             'solvers': ['z3 4.8.12 (/usr/bin/z3)', 'cvc5 binary']},
            'known_findings_hit': known_hits,
            'harness_errors': errors[:20],
        },
        'assumptions': info.get('assumptions', []),
        'wall_s': round(wall, 2),
        'violations': new_viol,
    }
    os.makedirs(EVID, exist_ok=True)
    with open(os.path.join(EVID, '%s.json' % pid), 'w') as f:
        json.dump(ev, f, indent=1, default=_jsonable)
    for l in lines:
        print(l)
    print('%s %s: paths=%d obligations=%d(sym)+%d(concrete) replayed=%d queries=%d/%d/%d(s/u/?) solver=%.1fs '
          'inconclusive=%d capped=%d known=%d new=%d errors=%d wall=%.1fs' % (
              pid, tier, total.paths, total.checks, total.checks_trivial, replayed, total.q_sat, total.q_unsat,
              total.q_unknown, total.solver_s, total.inconclusive, total.capped, known_hits, new_viol,
              len(errors), wall))
    if not exhaustive and not errors:
        print('INCOMPLETE: %s %s explored only part of the stated bound (work items capped by the time budget: %d, '
              'inconclusive paths: %d, solver unknown: %d); the evidence records exhaustive=false' % (
                  pid, tier, total.capped, total.inconclusive, total.q_unknown))
    if errors:
        for e in errors[:12]:
            print('HARNESS-ERROR: ' + e.replace('\n', '\n    '), file=sys.stderr)
        if new_viol:
            return EXIT_VIOLATION
        return EXIT_HARNESS
    return EXIT_VIOLATION if new_viol else EXIT_OK


def replay_file(path):
    """re-run a recorded violation natively against the library; exit 1 if it reproduces"""
    with open(path) as f:
        rec = json.load(f)
    sys.path.insert(0, HERE)
    from symex.native import NativeClient
    c = NativeClient()
    try:
        r = c.run(rec['module'], rec['harness'], rec['case'], rec['inputs'], rec['choices'])
    finally:
        c.close()
    if r[0] != 'ok':
        print('replay error:\n' + r[1])
        return EXIT_HARNESS
    hit = [f for f in r[2] if f[0] == rec['label'] and f[1] == rec['sig']]
    print('observations:', r[1])
    print('failed checks:', r[2])
    if hit:
        print('REPRODUCED property=%s harness=%s label=%s sig=%s' % (rec['property'], rec['harness'], rec['label'],
                                                                    rec['sig']))
        return EXIT_VIOLATION
    print('not reproduced')
    return EXIT_OK
