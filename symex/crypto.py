# symex.crypto -- ideal models of the cryptographic primitives python-ndn calls.
#
# Assumptions (part of every claim that uses them):
#   * SHA-256 is collision free: digests of different messages differ, of equal messages are equal.
#   * a signature / MAC under key k of message m is  F(kind, k, m)  for an injective F, and
#     verification accepts exactly that value (unforgeability), cut/padded to the signature length.
# On concrete inputs the functions are real computations (SHA-256 is the real SHA-256; F is
# SHA-256 of a domain-separated encoding), so the symbolic run on concrete data and the native
# replay compute identical bytes.  On symbolic inputs a value is 32 fresh bytes tied to its
# preimage by pairwise  m1 == m2  <=>  v1 == v2.
import hashlib
import z3
from . import core
from .core import SBytes, SInt, SBool, _e

PREFIX = b'IDEALKEY:'
SIG_LEN = None           # harness hook: fn(kind, max_len) -> int | SInt  (real length of a DER signature)
SIGN_LOG = None          # harness hook: list that receives (kind, key_raw, message elements) per sign()


def reset():
    global SIG_LEN, SIGN_LOG
    SIG_LEN = None
    SIGN_LOG = None


def _items(x):
    if isinstance(x, SBytes):
        return x.items()
    if x.__class__ is core._EVIEW[0] or x.__class__ is core._EVIEW[3]:
        return x.elements()           # contains a Gap marker: see ideal()
    if x.__class__ is core._EVIEW[2]:
        from .elastic import Gap
        return [Gap(x)]
    return list(bytes(x))


def _conc(lst):
    for v in lst:
        if v.__class__ is not int:
            return False
    return True


def _same(a, b):
    if len(a) != len(b):
        return False
    for x, y in zip(a, b):
        if x is y:
            continue
        if x.__class__ is int and y.__class__ is int:
            if x != y:
                return False
            continue
        if x.__class__ is int or y.__class__ is int:
            return False
        if x.__class__ is not SInt or y.__class__ is not SInt:
            if x.__class__ is SInt or y.__class__ is SInt or not x.same(y):      # Gap markers of elastic buffers
                return False
            continue
        if not z3.eq(x.e, y.e):
            return False
    return True


def _eq_formula(a, b):
    cs = []
    for x, y in zip(a, b):
        if x.__class__ is int and y.__class__ is int:
            if x != y:
                return z3.BoolVal(False)
        elif (x.__class__ is not int and x.__class__ is not SInt) or (y.__class__ is not int and y.__class__ is not SInt):
            # Gap marker of an elastic buffer: equal to the same octets of the same payload only
            if x.__class__ in (int, SInt) or y.__class__ in (int, SInt):
                return z3.BoolVal(False)
            cs.append(x.eq_formula(y))
        else:
            cs.append(_e(x) == _e(y))
    if not cs:
        return z3.BoolVal(True)
    return z3.And(*cs) if len(cs) > 1 else cs[0]


def _real(domain, msg):
    if domain == 'sha256':
        return list(hashlib.sha256(bytes(msg)).digest())
    return list(hashlib.sha256(b'ideal|' + domain.encode() + b'|' + bytes(msg)).digest())


def ideal(domain, msg):
    """32-element value of the ideal function ``domain`` on message ``msg`` (list of ints/SInts)"""
    eng = core.ENG
    conc = _conc(msg)
    if eng is None or eng.mode != 'sym':
        if not conc:
            raise core.HarnessError('symbolic message outside the symbolic engine')
        return _real(domain, msg)
    reg = eng.path_state.setdefault('ideal', [])
    for (d2, m2, t2) in reg:
        if d2 == domain and _same(msg, m2):
            return list(t2)
    if conc:
        tag = _real(domain, msg)
    else:
        tag = [eng.fresh('h', 0, 255) for _ in range(32)]
    for (d2, m2, t2) in reg:
        if conc and _conc(m2):
            continue
        teq = _eq_formula(tag, t2)
        if d2 == domain and len(m2) == len(msg):
            eng.add(_eq_formula(msg, m2) == teq)
        else:
            eng.add(z3.Not(teq))
    reg.append((domain, list(msg), list(tag)))
    return list(tag)


def _wrap(lst):
    if _conc(lst):
        return bytes(lst)
    return SBytes(list(lst), kind='bytes')


# ---------------------------------------------------------------------------------------------
# hashes
# ---------------------------------------------------------------------------------------------
class _Hash:
    digest_size = 32
    block_size = 64
    name = 'sha256'
    oid = '2.16.840.1.101.3.4.2.1'

    algo = 'sha256'

    def __init__(self, data=None, algo='sha256'):
        self.parts = []
        self.algo = algo
        if algo != 'sha256':
            self.name = algo
            self.digest_size = {'sha384': 48, 'sha512': 64}.get(algo, 32)
        if data:
            self.update(data)

    def update(self, blk):
        self.parts.extend(_items(blk))
        return None

    def digest(self):
        if self.algo != 'sha256':
            # another ideal function (32 ideal bytes, zero-extended to the nominal size)
            return _wrap(ideal(self.algo, self.parts) + [0] * (self.digest_size - 32))
        return _wrap(ideal('sha256', self.parts))

    def hexdigest(self):
        d = self.digest()
        return d.hex()

    def copy(self):
        h = _Hash(algo=self.algo)
        h.parts = list(self.parts)
        return h

    def new(self, data=None):
        return _Hash(data, self.algo)


def sha256(data=b'', **kw):
    return _Hash(data)


class SHA256:
    digest_size = 32

    @staticmethod
    def new(data=None):
        return _Hash(data)


class SHA384:
    digest_size = 48

    @staticmethod
    def new(data=None):
        return _Hash(data, 'sha384')


class SHA512:
    digest_size = 64

    @staticmethod
    def new(data=None, truncate=None):
        return _Hash(data, 'sha512')


def sha384(data=b'', **kw):
    return _Hash(data, 'sha384')


def sha512(data=b'', **kw):
    return _Hash(data, 'sha512')


class _Hmac:
    digest_size = 32

    def __init__(self, key, msg=b'', digestmod=None):
        k = _items(key)
        self.key = k
        self.parts = []
        if msg:
            self.update(msg)

    def update(self, blk):
        self.parts.extend(_items(blk))
        return self

    def _tag(self):
        return ideal('hmac', [len(self.key) & 0xFF, len(self.key) >> 8] + self.key + self.parts)

    def digest(self):
        return _wrap(self._tag())

    def verify(self, mac):
        mac = _items(mac)
        tag = self._tag()
        if len(mac) != 32:
            raise ValueError('MAC check failed')
        ok = _wrap(tag) == _wrap(mac)
        if not ok:
            raise ValueError('MAC check failed')

    def hexverify(self, h):
        self.verify(bytes.fromhex(h))


class HMAC:
    @staticmethod
    def new(key, msg=b'', digestmod=None):
        return _Hmac(key, msg, digestmod)


# ---------------------------------------------------------------------------------------------
# public-key signatures
# ---------------------------------------------------------------------------------------------
class IdealKey:
    """a key is a token  b'IDEALKEY:<kind>:<param>:<id>'  (private and public halves are the token)"""
    def __init__(self, raw):
        self.raw = raw                      # list of ints/SInts
        head = bytes(raw[:len(PREFIX)]) if _conc(raw[:len(PREFIX)]) else None
        if head is None:
            ok = _wrap(raw[:len(PREFIX)]) == PREFIX
            if not ok:
                raise ValueError('Unsupported key format')
        elif head != PREFIX:
            raise ValueError('Unsupported key format')
        # kind and parameter must be concrete (they decide sizes); the id may be symbolic
        rest = raw[len(PREFIX):]
        fields = []
        cur = []
        for v in rest:
            if len(fields) < 2:
                if v.__class__ is not int:
                    v = core.ENG.concretize(_e(v))
                if v == 0x3a:
                    fields.append(bytes(cur).decode())
                    cur = []
                    continue
                cur.append(v)
        if len(fields) < 2:
            raise ValueError('Unsupported key format')
        self.kind, self.param = fields
        if self.kind == 'rsa':
            self._size = int(self.param)
            self.n = 1 << (8 * self._size - 1)
        elif self.kind in ('ecc', 'ed'):
            self.curve = self.param
        else:
            raise ValueError('Unsupported key format')

    def size_in_bytes(self):
        return self._size

    def size_in_bits(self):
        return self._size * 8

    def has_private(self):
        return True

    def public_key(self):
        return self

    def export_key(self, **kw):
        return _wrap(self.raw)

    def max_sig_len(self):
        if self.kind == 'rsa':
            return self._size
        if self.kind == 'ed':
            return 64
        bits = int(self.curve[-3:]) if self.curve[-3:].isdigit() else 256
        ks = (bits * 2 + 7) // 8
        ks += ks % 2
        return ks + 8


class RsaKey(IdealKey):
    pass


class EccKey(IdealKey):
    pass


def _import(raw, want):
    raw = _items(raw)
    k = IdealKey(raw)
    if want == 'rsa' and k.kind != 'rsa':
        raise ValueError('RSA key format is not supported')
    if want == 'ecc' and k.kind not in ('ecc', 'ed'):
        raise ValueError('ECC key format is not supported')
    k.__class__ = RsaKey if k.kind == 'rsa' else EccKey
    return k


class RSA:
    RsaKey = RsaKey

    @staticmethod
    def import_key(raw, passphrase=None):
        return _import(raw, 'rsa')


class ECC:
    EccKey = EccKey

    @staticmethod
    def import_key(raw, passphrase=None, curve_name=None):
        return _import(raw, 'ecc')


def _sig_bytes(kind, key, msg, length):
    # the total length is part of what the tag binds: a truncated signature is not a valid signature
    tag = ideal('sig-' + kind, [length & 0xFF, length >> 8, len(key.raw) & 0xFF, len(key.raw) >> 8] + key.raw + msg)
    out = list(tag[:length])
    k = len(out)
    while len(out) < length:
        out.append((len(out) * 7 + 3) & 0xFF)
    return out


class _Scheme:
    variable = False

    def __init__(self, kind, key):
        self.kind = kind
        self.key = key

    def _msg(self, h):
        if isinstance(h, _Hash):
            if h.algo != 'sha256':
                # a signature over another digest of the message is a signature of something else
                return list(('#' + h.algo + '#').encode()) + list(h.parts)
            return list(h.parts)
        return _items(h)

    def sign(self, h):
        msg = self._msg(h)
        mx = self.key.max_sig_len()
        n = mx
        if self.variable and SIG_LEN is not None:
            n = SIG_LEN(self.kind, mx)
            if isinstance(n, SInt):
                n = core.ENG.concretize(n.e)
        if SIGN_LOG is not None:
            SIGN_LOG.append((self.kind, self.key.raw, msg))
        return _wrap(_sig_bytes(self.kind, self.key, msg, n))

    def verify(self, h, sig):
        msg = self._msg(h)
        sig = _items(sig)
        mx = self.key.max_sig_len()
        if self.variable:
            # a signature shorter than the 32-byte tag does not bind the message in this model: never valid
            if len(sig) > mx or len(sig) < 32:
                raise ValueError('The signature is not authentic')
        elif len(sig) != mx:
            raise ValueError('The signature is not authentic (length)')
        exp = _sig_bytes(self.kind, self.key, msg, len(sig))
        ok = _wrap(exp) == _wrap(sig)
        if not ok:
            raise ValueError('The signature is not authentic')
        return False


class _Dss(_Scheme):
    variable = True


class DSS:
    @staticmethod
    def new(key, mode, encoding='binary', randfunc=None):
        if not isinstance(key, IdealKey) or key.kind != 'ecc':
            raise ValueError('DSS needs an ECC key')
        return _Dss('ecdsa', key)


class pkcs1_15:
    @staticmethod
    def new(key):
        if not isinstance(key, IdealKey) or key.kind != 'rsa':
            raise ValueError('pkcs1_15 needs an RSA key')
        return _Scheme('rsa', key)


class eddsa:
    @staticmethod
    def new(key, mode, context=None):
        if not isinstance(key, IdealKey) or key.kind != 'ed':
            raise ValueError('eddsa needs an Ed25519 key')
        return _Scheme('ed25519', key)


def make_key(kind, ident, param=None):
    """token for a key of the given kind ('rsa' | 'ecc' | 'ed')"""
    if param is None:
        param = {'rsa': '256', 'ecc': 'NIST P-256', 'ed': 'Ed25519'}[kind]
    return PREFIX + kind.encode() + b':' + str(param).encode() + b':' + ident.encode()


# ---------------------------------------------------------------------------------------------
# installation into ndn.* module namespaces
# ---------------------------------------------------------------------------------------------
def _targets():
    import Cryptodome.Hash.SHA256 as rSHA256
    import Cryptodome.Hash.SHA384 as rSHA384
    import Cryptodome.Hash.SHA512 as rSHA512
    import Cryptodome.Hash.HMAC as rHMAC
    import Cryptodome.PublicKey.ECC as rECC
    import Cryptodome.PublicKey.RSA as rRSA
    import Cryptodome.Signature.DSS as rDSS
    import Cryptodome.Signature.pkcs1_15 as rP
    import Cryptodome.Signature.eddsa as rE
    return [(hashlib.sha256, sha256), (hashlib.sha384, sha384), (hashlib.sha512, sha512), (rSHA256, SHA256),
            (rSHA384, SHA384), (rSHA512, SHA512), (rHMAC, HMAC), (rECC, ECC), (rRSA, RSA),
            (rDSS, DSS), (rP, pkcs1_15), (rE, eddsa)]


_T = None


def patch_module(module):
    global _T
    if _T is None:
        _T = _targets()
    d = module.__dict__
    for k, v in list(d.items()):
        for real, ideal_obj in _T:
            if v is real:
                d[k] = ideal_obj
                break


def install():
    """replace the primitives in every loaded and every future ndn.* module"""
    import sys
    from . import loader
    if patch_module not in loader.POST_EXEC_HOOKS:
        loader.POST_EXEC_HOOKS.append(patch_module)
    for name, mod in list(sys.modules.items()):
        if mod is not None and (name == 'ndn' or name.startswith('ndn.')):
            patch_module(mod)
