# symex.core -- replay-based symbolic execution of unmodified Python code over z3.
#
# The library under test runs natively.  Values that are solver variables are proxy objects
# (SInt, SBool, SBytes, SFix).  Whenever Python needs a concrete truth value (``if x <= 0xFC``)
# the proxy asks the Engine, which asks z3 whether both outcomes are feasible under the current
# path condition, follows one and queues the other (as a decision prefix to re-execute later).
import builtins
import os
import struct as _struct
import time
import z3

_int = builtins.int
_isinstance = builtins.isinstance
_len = builtins.len
_bytes = builtins.bytes
_bytearray = builtins.bytearray
_memoryview = builtins.memoryview


class PathAbort(BaseException):
    """Raised to leave the current path (infeasible, cut, or budget).  BaseException on purpose."""


class HarnessError(Exception):
    """The encoding / harness is wrong (never reported as a violation)."""


ENG = None          # the active engine (symbolic or concrete)


def eng():
    return ENG


# --------------------------------------------------------------------------------------------
# Symbolic scalars
# --------------------------------------------------------------------------------------------
def _e(x):
    """z3 Int expression of x, or NotImplemented"""
    if _isinstance(x, SInt):
        return x.e
    if _isinstance(x, SBool):
        return z3.If(x.e, z3.IntVal(1), z3.IntVal(0))
    if _isinstance(x, bool):
        return z3.IntVal(_int(x))
    if _isinstance(x, _int):
        return z3.IntVal(x)
    return NotImplemented


def _be(x):
    """z3 Bool expression of x"""
    if _isinstance(x, SBool):
        return x.e
    if _isinstance(x, SInt):
        return x.e != 0
    if _isinstance(x, z3.BoolRef):
        return x
    return z3.BoolVal(bool(x))


class SBool:
    __slots__ = ('e',)

    def __init__(self, e):
        self.e = e

    def __bool__(self):
        return ENG.branch(self.e)

    def __and__(self, o):
        if o is True:
            return self
        if o is False:
            return False
        return SBool(z3.And(self.e, _be(o)))
    __rand__ = __and__

    def __or__(self, o):
        if o is True:
            return True
        if o is False:
            return self
        return SBool(z3.Or(self.e, _be(o)))
    __ror__ = __or__

    def __invert__(self):
        return SBool(z3.Not(self.e))

    def __eq__(self, o):
        if _isinstance(o, (SBool, bool)):
            return SBool(self.e == _be(o))
        oe = _e(o)
        if oe is NotImplemented:
            return NotImplemented
        return SBool(_e(self) == oe)

    def __ne__(self, o):
        r = self.__eq__(o)
        return r if r is NotImplemented else SBool(z3.Not(r.e))
    __hash__ = None

    def __index__(self):
        return 1 if ENG.branch(self.e) else 0
    __int__ = __index__

    def __repr__(self):
        return '<SBool>'


def _cmp(op):
    def f(self, o):
        k = self.known()
        if k is not None and o.__class__ is _int:
            return op(k, o)
        oe = _e(o)
        if oe is NotImplemented:
            if _isinstance(o, SFix):
                return NotImplemented
            return NotImplemented
        return SBool(op(self.e, oe))
    return f


def _pow2(o):
    return _isinstance(o, _int) and not _isinstance(o, bool) and o >= 0 and (o & (o + 1)) == 0


class SInt:
    """A Python int whose value is a z3 Int term (mathematical integer: Python ints do not wrap)."""
    __slots__ = ('e',)

    def __init__(self, e):
        self.e = e

    # arithmetic ------------------------------------------------------------------------
    def known(self):
        """the Python int this term is known to equal on the current path, or None"""
        k = ENG.known
        if k:
            return k.get(self.e.get_id())
        return None

    def __add__(self, o):
        k = self.known()
        if k is not None:
            return k + o
        oe = _e(o)
        return NotImplemented if oe is NotImplemented else SInt(self.e + oe)
    __radd__ = __add__

    def __sub__(self, o):
        k = self.known()
        if k is not None:
            return k - o
        oe = _e(o)
        return NotImplemented if oe is NotImplemented else SInt(self.e - oe)

    def __rsub__(self, o):
        k = self.known()
        if k is not None:
            return o - k
        oe = _e(o)
        return NotImplemented if oe is NotImplemented else SInt(oe - self.e)

    def __mul__(self, o):
        if _isinstance(o, float):
            return NotImplemented
        if _isinstance(o, SInt):
            return ENG.concretize(o.e) * self        # keep the arithmetic linear
        oe = _e(o)
        return NotImplemented if oe is NotImplemented else SInt(self.e * oe)
    __rmul__ = __mul__

    def __neg__(self):
        return SInt(-self.e)

    def __pos__(self):
        return self

    # Operations without a linear encoding fall back to concretisation: the operands are enumerated by forking
    # (bounded by the per-site cap, beyond which the path is marked inconclusive) - never an error.
    def _conc2(self, o, fn):
        a = ENG.concretize(self.e)
        b = ENG.concretize(o.e) if _isinstance(o, SInt) else o
        return fn(a, b)

    def __floordiv__(self, o):
        if _isinstance(o, _int) and not _isinstance(o, bool) and o > 0:
            return SInt(self.e / z3.IntVal(o))      # z3 int division == floor for a positive divisor
        return self._conc2(o, lambda a, b: a // b)

    def __rfloordiv__(self, o):
        return self._conc2(o, lambda a, b: b // a)

    def __mod__(self, o):
        if _isinstance(o, _int) and not _isinstance(o, bool) and o > 0:
            return SInt(self.e % z3.IntVal(o))
        return self._conc2(o, lambda a, b: a % b)

    def __rmod__(self, o):
        return self._conc2(o, lambda a, b: b % a)

    def __and__(self, o):
        if _pow2(o):
            return SInt(self.e % z3.IntVal(o + 1))
        return self._conc2(o, lambda a, b: a & b)
    __rand__ = __and__

    def __or__(self, o):
        return self._conc2(o, lambda a, b: a | b)
    __ror__ = __or__

    def __xor__(self, o):
        return self._conc2(o, lambda a, b: a ^ b)
    __rxor__ = __xor__

    def __lshift__(self, o):
        if _isinstance(o, _int):
            return SInt(self.e * z3.IntVal(2 ** _int(o)))
        return self._conc2(o, lambda a, b: a << b)

    def __rlshift__(self, o):
        return self._conc2(o, lambda a, b: b << a)

    def __rshift__(self, o):
        if _isinstance(o, _int):
            return SInt(self.e / z3.IntVal(2 ** _int(o)))
        return self._conc2(o, lambda a, b: a >> b)

    def __rrshift__(self, o):
        return self._conc2(o, lambda a, b: b >> a)

    def __pow__(self, o, mod=None):
        return self._conc2(o, lambda a, b: pow(a, b, mod))

    def __rpow__(self, o):
        return self._conc2(o, lambda a, b: b ** a)

    def __truediv__(self, o):
        # only "milliseconds / 1000.0" style conversions are supported: result is fixed-point seconds
        if o == 1000 or o == 1000.0:
            return SFix(self.e * 1000)
        raise NotImplementedError('SInt / %r' % (o,))

    __lt__ = _cmp(lambda a, b: a < b)
    __le__ = _cmp(lambda a, b: a <= b)
    __gt__ = _cmp(lambda a, b: a > b)
    __ge__ = _cmp(lambda a, b: a >= b)
    __eq__ = _cmp(lambda a, b: a == b)
    __ne__ = _cmp(lambda a, b: a != b)

    def __hash__(self):
        cands = ENG.int_hash_candidates
        if cands is not None:
            # dictionary/set key: decide equality with each declared candidate; a value equal to none of them can
            # only collide with itself, so one fixed hash is sound (at most one such symbolic key per path)
            k = self.known()
            if k is not None:
                return hash(k)
            for c in cands:
                if ENG.branch(self.e == c):
                    return hash(c)
            return 0x51ab
        return hash(self.__index__())

    def __bool__(self):
        return ENG.branch(self.e != 0)

    def __index__(self):
        return ENG.concretize(self.e)
    __int__ = __index__

    def __format__(self, spec):
        if ENG.format_concretize:
            return format(self.__index__(), spec)
        c = ENG.const_of(self.e)           # a value already pinned on this path renders as itself
        return format(c, spec) if c is not None else '<sym>'

    def __str__(self):
        if ENG.format_concretize:
            return str(self.__index__())
        c = ENG.const_of(self.e)
        return str(c) if c is not None else '<sym>'
    __repr__ = __str__

    def to_bytes(self, length=1, byteorder='big', *, signed=False):
        assert byteorder == 'big' and not signed
        return SBytes(pack_uint(self, length))

    def bit_length(self):
        return self.__index__().bit_length()


US = 1000000


class SFix:
    """fixed-point seconds: value = n / 1e6 with n a z3 Int term or a Python int (pure LIA)"""
    __slots__ = ('n',)

    def __init__(self, n):
        self.n = n

    @staticmethod
    def of(x):
        if _isinstance(x, SFix):
            return x
        if _isinstance(x, SInt):
            return SFix(x.e * US)
        if _isinstance(x, bool):
            return SFix(_int(x) * US)
        if _isinstance(x, _int):
            return SFix(x * US)
        if _isinstance(x, float):
            import fractions
            f = fractions.Fraction(x) * US
            r = round(f)
            if abs(f - r) >= fractions.Fraction(1, 2):
                raise HarnessError('float %r is not representable in microsecond ticks' % x)
            return SFix(_int(r))
        return None

    def __add__(self, o):
        o = SFix.of(o)
        return NotImplemented if o is None else SFix(self.n + o.n)
    __radd__ = __add__

    def __sub__(self, o):
        o = SFix.of(o)
        return NotImplemented if o is None else SFix(self.n - o.n)

    def __rsub__(self, o):
        o = SFix.of(o)
        return NotImplemented if o is None else SFix(o.n - self.n)

    def __neg__(self):
        return SFix(-self.n)

    def __mul__(self, o):
        if _isinstance(o, _int) and not _isinstance(o, bool):
            return SFix(self.n * o)
        if _isinstance(o, float):
            import fractions
            fr = fractions.Fraction(o).limit_denominator(1000000)
            # n * p / q : keep integer ticks (floor)
            v = self.n * fr.numerator
            if fr.denominator == 1:
                return SFix(v)
            if _isinstance(v, _int):
                return SFix(v // fr.denominator)
            return SFix(v / z3.IntVal(fr.denominator))
        return NotImplemented
    __rmul__ = __mul__

    def _c(op):
        def f(self, o):
            o = SFix.of(o)
            if o is None:
                return NotImplemented
            r = op(self.n, o.n)
            return r if _isinstance(r, bool) else SBool(r)
        return f
    __lt__ = _c(lambda a, b: a < b)
    __le__ = _c(lambda a, b: a <= b)
    __gt__ = _c(lambda a, b: a > b)
    __ge__ = _c(lambda a, b: a >= b)
    __eq__ = _c(lambda a, b: a == b)
    __ne__ = _c(lambda a, b: a != b)
    __hash__ = None
    del _c

    def is_symbolic(self):
        return not _isinstance(self.n, _int)

    def ms_floor(self):
        """floor(value * 1000) as int/SInt (used by the clock stub)"""
        if _isinstance(self.n, _int):
            return self.n // 1000
        return SInt(self.n / z3.IntVal(1000))

    def __float__(self):
        if _isinstance(self.n, _int):
            return self.n / US
        return ENG.concretize(self.n) / US

    def __repr__(self):
        return '<SFix %s>' % (self.n if _isinstance(self.n, _int) else 'sym')


def issym(x):
    return _isinstance(x, (SInt, SBool, SFix)) or (_isinstance(x, SBytes) and x.is_symbolic())


# --------------------------------------------------------------------------------------------
# Symbolic byte strings (concrete length, symbolic content)
# --------------------------------------------------------------------------------------------
def _isb(x):
    return _isinstance(x, (_bytes, _bytearray, _memoryview))


class SBytes:
    """bytes / bytearray / memoryview look-alike backed by a Python list of ints and SInts.

    A memoryview flavour shares the list with its base object (writes through), the other
    flavours copy on slicing - exactly like the builtins."""
    __slots__ = ('d', 'a', 'b', 'kind', 'readonly')

    def __init__(self, data, start=0, stop=None, kind='bytes', readonly=None):
        self.d = data
        self.a = start
        self.b = _len(data) if stop is None else stop
        self.kind = kind
        self.readonly = (kind == 'bytes') if readonly is None else readonly

    # -- basic protocol ----------------------------------------------------------------------
    def __len__(self):
        return self.b - self.a

    def is_symbolic(self):
        d = self.d
        for k in range(self.a, self.b):
            if d[k].__class__ is not _int:
                return True
        return False

    def items(self):
        return self.d[self.a:self.b]

    def concrete(self):
        """real bytes if every element is concrete, else None"""
        l = self.d[self.a:self.b]
        for v in l:
            if v.__class__ is not _int:
                return None
        return _bytes(l)

    def _idx(self, i):
        n = self.b - self.a
        if _isinstance(i, SInt):
            c = ENG.const_of(i.e)
            if c is not None:
                i = c
            else:
                if i < 0:
                    i = i + n
                if i < 0 or i >= n:
                    raise IndexError('index out of range')
                return ENG.concretize(i.e)
        else:
            i = i.__index__()
        i = i.__index__()
        if i < 0:
            i += n
        if i < 0 or i >= n:
            raise IndexError('index out of range')
        return i

    def _bound(self, v, default):
        n = self.b - self.a
        if v is None:
            return default
        if _isinstance(v, SInt):
            c = ENG.const_of(v.e)
            if c is not None:
                v = c
            else:
                if v < 0:
                    v = v + n
                    if v < 0:
                        return 0
                if v >= n:
                    return n
                return ENG.concretize(v.e)
        else:
            v = v.__index__()
        if v < 0:
            v = max(0, v + n)
        return min(v, n)

    def __getitem__(self, i):
        if _isinstance(i, slice):
            if i.step not in (None, 1):
                raise NotImplementedError('SBytes step slice')
            lo = self._bound(i.start, 0)
            hi = self._bound(i.stop, self.b - self.a)
            hi = max(hi, lo)
            if self.kind == 'memoryview':
                return SBytes(self.d, self.a + lo, self.a + hi, 'memoryview', self.readonly)
            return SBytes(self.d[self.a + lo:self.a + hi], kind=self.kind)
        return self.d[self.a + self._idx(i)]

    def __setitem__(self, i, v):
        if self.readonly:
            raise TypeError('cannot modify read-only memory')
        if _isinstance(i, slice):
            if i.step not in (None, 1):
                raise NotImplementedError('SBytes step slice')
            lo = self._bound(i.start, 0)
            hi = self._bound(i.stop, self.b - self.a)
            hi = max(hi, lo)
            if _isinstance(v, SBytes):
                vals = v.items()
            else:
                vals = list(v)
            if _len(vals) != hi - lo:
                if self.kind == 'bytearray' and self.a == 0 and self.b == _len(self.d):
                    self.d[lo:hi] = vals          # a real bytearray may be resized by slice assignment
                    self.b = _len(self.d)
                    return
                raise ValueError('memoryview assignment: lvalue and rvalue have different structures')
            for x in vals:
                if x.__class__ is _int and not 0 <= x <= 255:
                    raise ValueError('byte must be in range(0, 256)')
            self.d[self.a + lo:self.a + hi] = vals
        else:
            k = self.a + self._idx(i)
            if _isinstance(v, SInt):
                # the library only stores values it has range-checked; keep the term
                self.d[k] = v
            else:
                v = v.__index__()
                if not 0 <= v <= 255:
                    raise ValueError('byte must be in range(0, 256)')
                self.d[k] = v

    def __iter__(self):
        d = self.d
        for k in range(self.a, self.b):
            yield d[k]

    def __bool__(self):
        return self.b > self.a

    def __contains__(self, x):
        raise NotImplementedError('SBytes.__contains__')

    # -- comparison ---------------------------------------------------------------------------
    def _other(self, o):
        if _isinstance(o, SBytes):
            return o.items()
        if _isb(o):
            return list(_bytes(o))
        return None

    def __eq__(self, o):
        ol = self._other(o)
        if ol is None:
            return False
        if _len(ol) != self.b - self.a:
            return False
        cs = []
        d = self.d
        a = self.a
        for k, y in enumerate(ol):
            x = d[a + k]
            if x.__class__ is _int and y.__class__ is _int:
                if x != y:
                    return False
            else:
                cs.append(_e(x) == _e(y))
        if not cs:
            return True
        return SBool(z3.And(*cs) if _len(cs) > 1 else cs[0])

    def __ne__(self, o):
        r = self.__eq__(o)
        return SBool(z3.Not(r.e)) if _isinstance(r, SBool) else not r

    def _lex(self, o, strict_result_when_equal):
        """formula for self < o (lexicographic, shorter-is-smaller on equal prefix)"""
        ol = self._other(o)
        if ol is None:
            return NotImplemented
        sl = self.items()
        n = min(_len(sl), _len(ol))
        # build from the end
        if _len(sl) == _len(ol):
            tail = z3.BoolVal(strict_result_when_equal)
        else:
            tail = z3.BoolVal(_len(sl) < _len(ol))
        f = tail
        for k in range(n - 1, -1, -1):
            x, y = _e(sl[k]), _e(ol[k])
            f = z3.If(x == y, f, x < y)
        f = z3.simplify(f)
        if z3.is_true(f):
            return True
        if z3.is_false(f):
            return False
        return SBool(f)

    def __lt__(self, o):
        return self._lex(o, False)

    def __le__(self, o):
        return self._lex(o, True)

    def __gt__(self, o):
        r = self._lex(o, True)
        if r is NotImplemented:
            return r
        return SBool(z3.Not(r.e)) if _isinstance(r, SBool) else not r

    def __ge__(self, o):
        r = self._lex(o, False)
        if r is NotImplemented:
            return r
        return SBool(z3.Not(r.e)) if _isinstance(r, SBool) else not r

    def __hash__(self):
        c = self.concrete()
        if c is not None:
            return hash(c)
        return ENG.hash_symbolic_bytes(self)

    # -- construction -------------------------------------------------------------------------
    def __add__(self, o):
        ol = self._other(o)
        if ol is None:
            return NotImplemented
        return SBytes(self.items() + ol, kind='bytearray' if self.kind == 'bytearray' else 'bytes')

    def __radd__(self, o):
        ol = self._other(o)
        if ol is None:
            return NotImplemented
        return SBytes(ol + self.items(), kind='bytearray' if _isinstance(o, _bytearray) else 'bytes')

    def __iadd__(self, o):
        if self.kind != 'bytearray':
            return self.__add__(o)
        ol = self._other(o)
        if ol is None:
            return NotImplemented
        if self.a != 0 or self.b != _len(self.d):
            raise HarnessError('iadd on a view')
        self.d.extend(ol)
        self.b = _len(self.d)
        return self

    def _strip(self, chars, left, right):
        ws = b' \t\n\r\x0b\x0c' if chars is None else _bytes(chars)
        items = self.items()

        def isws(v):
            if v.__class__ is _int:
                return v in ws
            for c in ws:
                if v == c:              # SBool -> branch
                    return True
            return False
        a, b = 0, _len(items)
        while left and a < b and isws(items[a]):
            a += 1
        while right and b > a and isws(items[b - 1]):
            b -= 1
        return SBytes(items[a:b], kind='bytes' if self.kind == 'memoryview' else self.kind)

    def strip(self, chars=None):
        return self._strip(chars, True, True)

    def lstrip(self, chars=None):
        return self._strip(chars, True, False)

    def rstrip(self, chars=None):
        return self._strip(chars, False, True)

    def rjust(self, width, fill=b'\x00'):
        pad = width - len(self) if width > len(self) else 0
        return SBytes([fill[0]] * pad + self.items(), kind='bytes' if self.kind == 'memoryview' else self.kind)

    def ljust(self, width, fill=b'\x00'):
        pad = width - len(self) if width > len(self) else 0
        return SBytes(self.items() + [fill[0]] * pad, kind='bytes' if self.kind == 'memoryview' else self.kind)

    def extend(self, o):
        if self.kind != 'bytearray':
            raise AttributeError("'%s' object has no attribute 'extend'" % self.kind)
        self.__iadd__(o)

    def append(self, v):
        if self.kind != 'bytearray':
            raise AttributeError("'%s' object has no attribute 'append'" % self.kind)
        self.__iadd__(SBytes([v], kind='bytes'))

    def __mul__(self, k):
        return SBytes(self.items() * k, kind=self.kind)

    def tobytes(self):
        c = self.concrete()
        return c if c is not None else SBytes(self.items(), kind='bytes')

    def hex(self):
        c = self.concrete()
        if c is not None:
            return c.hex()
        if ENG.format_concretize:
            return _bytes(ENG.concretize(_e(v)) for v in self.items()).hex()
        return '<symhex>'

    def decode(self, enc='utf-8', errors='strict'):
        c = self.concrete()
        if c is None:
            c = _bytes(ENG.concretize(_e(v)) for v in self.items())
        return c.decode(enc, errors)

    def release(self):
        pass

    @property
    def nbytes(self):
        return self.b - self.a

    @property
    def obj(self):
        return self

    def toreadonly(self):
        return SBytes(self.d, self.a, self.b, 'memoryview', True)

    def startswith(self, p):
        p = _bytes(p)
        if _len(p) > _len(self):
            return False
        return self[:_len(p)] == p

    def __repr__(self):
        c = self.concrete()
        if c is not None:
            return 'S' + repr(c)
        return '<SBytes %s len=%d>' % (self.kind, self.b - self.a)
    __str__ = __repr__

    def __format__(self, spec):
        return self.__repr__()


def pack_uint(v, size):
    """big-endian bytes of v (list of ints/SInts), v already range-checked by the caller"""
    if not _isinstance(v, SInt):
        return list(_int(v).to_bytes(size, 'big'))
    if size == 1:
        return [v]
    bs = [ENG.fresh('pk', 0, 255) for _ in range(size)]
    ENG.add(v.e == z3.Sum([b.e * (256 ** (size - 1 - i)) for i, b in enumerate(bs)]))
    ENG.packmap[tuple(b.e.get_id() for b in bs)] = (v, bs)
    return bs


def unpack_uint(chunk):
    n = _len(chunk)
    if all(x.__class__ is _int for x in chunk):
        return _int.from_bytes(_bytes(chunk), 'big')
    if n == 1:
        return chunk[0]
    if all(x.__class__ is SInt for x in chunk):
        hit = ENG.packmap.get(tuple(x.e.get_id() for x in chunk))
        if hit is not None:
            return hit[0]         # the very bytes produced by packing a known term: read the term back
    return SInt(z3.Sum([_e(b) * (256 ** (n - 1 - i)) for i, b in enumerate(chunk)]))


# --------------------------------------------------------------------------------------------
# struct shim
# --------------------------------------------------------------------------------------------
_EVIEW = [None, None, None, None, None]      # [EView class, alloc(total), EBlob class] - filled in by symex.elastic users (api.py)
_FMT = {'B': 1, 'H': 2, 'I': 4, 'L': 4, 'Q': 8}       # unsigned, network order ('L' is 4 bytes with '!')


class SymStruct:
    """stand-in for the ``struct`` module inside ndn.* namespaces (formats '!' + [BHIQ]*)"""
    error = _struct.error
    calcsize = staticmethod(_struct.calcsize)
    Struct = _struct.Struct

    @staticmethod
    def _items(fmt):
        if fmt[0] != '!' or any(c not in _FMT for c in fmt[1:]):
            raise HarnessError('struct format %r not modelled' % fmt)
        return [_FMT[c] for c in fmt[1:]]

    @staticmethod
    def _raw(fmt):
        """'!Ns' / 'Ns' formats (N raw bytes): returns N or None"""
        f = fmt[1:] if fmt[:1] in '!<>=@' else fmt
        if f.endswith('s') and (f[:-1].isdigit() or f[:-1] == ''):
            return _int(f[:-1] or '1')
        return None

    @classmethod
    def _pack_list(cls, fmt, vals):
        sizes = cls._items(fmt)
        if _len(sizes) != _len(vals):
            raise _struct.error('pack expected %d items for packing (got %d)' % (_len(sizes), _len(vals)))
        out = []
        for size, v in zip(sizes, vals):
            if _isinstance(v, SBool):
                v = SInt(_e(v))
            if _isinstance(v, SInt):
                if v < 0 or v >= 256 ** size:
                    raise _struct.error('argument out of range')
                out += pack_uint(v, size)
            else:
                if not _isinstance(v, _int):
                    raise _struct.error('required argument is not an integer')
                if not 0 <= v < 256 ** size:
                    raise _struct.error('argument out of range')
                out += list(_int(v).to_bytes(size, 'big'))
        return out

    @classmethod
    def pack(cls, fmt, *vals):
        if not any(_isinstance(v, (SInt, SBool)) for v in vals):
            return _struct.pack(fmt, *vals)
        return SBytes(cls._pack_list(fmt, vals))

    @classmethod
    def pack_into(cls, fmt, buf, offset, *vals):
        if buf.__class__ is _EVIEW[0]:
            out = cls._pack_list(fmt, vals)
            n = s_len(buf)
            if offset < 0:
                offset = offset + n
            if offset < 0 or offset + _len(out) > n:
                raise _struct.error('pack_into requires a buffer of at least %d bytes' % _len(out))
            if buf.readonly:
                raise TypeError('argument must be read-write bytes-like object')
            for k, x in enumerate(out):
                buf.buf.put(buf.a + offset + k, x)
            return None
        if not _isinstance(buf, SBytes) and not _isinstance(offset, SInt) \
                and not any(_isinstance(v, (SInt, SBool)) for v in vals):
            return _struct.pack_into(fmt, buf, offset, *vals)
        out = cls._pack_list(fmt, vals)
        n = _len(buf)
        if _isinstance(offset, SInt):
            offset = ENG.concretize(offset.e)
        if offset < 0:
            offset += n
        if offset < 0 or offset + _len(out) > n:
            raise _struct.error('pack_into requires a buffer of at least %d bytes' % (offset + _len(out)))
        if _isinstance(buf, SBytes):
            if buf.readonly:
                raise TypeError('argument must be read-write bytes-like object')
            buf.d[buf.a + offset:buf.a + offset + _len(out)] = out
        else:
            buf[offset:offset + _len(out)] = _bytes(ENG.concretize(_e(x)) for x in out)

    @classmethod
    def unpack(cls, fmt, buf):
        sizes = cls._items(fmt)
        if buf.__class__ is _EVIEW[0]:
            n = s_len(buf)
            if n != sum(sizes):
                raise _struct.error('unpack requires a buffer of %d bytes' % sum(sizes))
            buf = SBytes([buf[i] for i in range(sum(sizes))])
        if not _isinstance(buf, SBytes):
            return _struct.unpack(fmt, buf)
        if _len(buf) != sum(sizes):
            raise _struct.error('unpack requires a buffer of %d bytes' % sum(sizes))
        res = []
        p = 0
        data = buf.items()
        for s in sizes:
            res.append(unpack_uint(data[p:p + s]))
            p += s
        return tuple(res)

    @classmethod
    def unpack_from(cls, fmt, buf, offset=0):
        if buf.__class__ is _EVIEW[0]:
            raw = cls._raw(fmt)
            n = raw if raw is not None else sum(cls._items(fmt))
            ln = s_len(buf)
            if offset < 0:
                offset = offset + ln
            if offset < 0 or offset + n > ln:
                raise _struct.error('unpack_from requires a buffer of at least %d bytes' % n)
            chunk = SBytes([buf[offset + k] for k in range(n)])
            if raw is not None:
                return (chunk.tobytes(),)
            return cls.unpack(fmt, chunk)
        raw = cls._raw(fmt)
        if raw is not None:
            if not _isinstance(buf, SBytes) and not _isinstance(offset, SInt):
                return _struct.unpack_from(fmt, buf, offset)
            if not _isinstance(buf, SBytes):
                buf = SBytes(list(_bytes(buf)))
            ln = _len(buf)
            if _isinstance(offset, SInt):
                offset = ENG.concretize(offset.e)
            if offset < 0:
                offset += ln
            if offset < 0 or offset + raw > ln:
                raise _struct.error('unpack_from requires a buffer of at least %d bytes' % raw)
            return (SBytes(buf.d[buf.a + offset:buf.a + offset + raw], kind='bytes').tobytes(),)
        n = sum(cls._items(fmt))
        if not _isinstance(buf, SBytes) and not _isinstance(offset, SInt):
            return _struct.unpack_from(fmt, buf, offset)
        if not _isinstance(buf, SBytes):
            buf = SBytes(list(_bytes(buf)))
        ln = _len(buf)
        if _isinstance(offset, SInt):
            if offset < 0:
                offset = offset + ln
            if offset < 0 or offset + n > ln:
                raise _struct.error('unpack_from requires a buffer of at least %d bytes' % n)
            offset = ENG.concretize(offset.e)
        else:
            if offset < 0:
                offset += ln
            if offset < 0 or offset + n > ln:
                raise _struct.error('unpack_from requires a buffer of at least %d bytes' % n)
        return cls.unpack(fmt, SBytes(buf.d, buf.a + offset, buf.a + offset + n))


# --------------------------------------------------------------------------------------------
# builtin shims (classes, so that ``isinstance(x, int)`` / ``issubclass(int, ...)`` keep working)
# --------------------------------------------------------------------------------------------
class s_int(_int):
    def __new__(cls, x=0, *a):
        if _isinstance(x, SInt):
            return x
        if _isinstance(x, SBool):
            return SInt(_e(x))
        if _isinstance(x, SFix):
            # int(seconds): floor toward zero for non-negative values
            if _isinstance(x.n, _int):
                return x.n // US
            return SInt(x.n / z3.IntVal(US))
        return _int(x, *a)

    @staticmethod
    def from_bytes(b, byteorder='big', *, signed=False):
        if _isinstance(b, SBytes):
            if byteorder != 'big' or signed:
                raise HarnessError('int.from_bytes variant not modelled')
            if _len(b) == 0:
                return 0
            return unpack_uint(b.items())
        return _int.from_bytes(b, byteorder, signed=signed)


def _has_sym(seq):
    for v in seq:
        if v.__class__ is not _int:
            if _isinstance(v, (SInt, SBool)):
                return True
    return False


class s_bytes(_bytes):
    def __new__(cls, x=b'', *a):
        if x.__class__ is _EVIEW[0]:
            n = x.__slen__()
            if n.__class__ is not _int:
                raise HarnessError('elastic: bytes() of a window of symbolic length')
            return s_bytes([x[i] for i in range(n)])
        if _isinstance(x, SBytes):
            c = x.concrete()
            return c if c is not None else SBytes(x.items(), kind='bytes')
        if _isinstance(x, SInt):
            x = x.__index__()
        if _isinstance(x, (list, tuple)) and _has_sym(x):
            return SBytes([v if _isinstance(v, SInt) else _int(v) for v in x], kind='bytes')
        return _bytes(x, *a)
    fromhex = _bytes.fromhex


class s_bytearray(_bytearray):
    def __new__(cls, x=0, *a):
        if _isinstance(x, SBytes):
            return SBytes(x.items(), kind='bytearray')
        if _isinstance(x, SInt):
            if ENG.elastic_mode and ENG.const_of(x.e) is None:
                return _EVIEW[1](x)
            x = ENG.alloc_size(x)
        if ENG is not None and ENG.symbolic_buffers:
            if _isinstance(x, _int):
                return SBytes([0] * x, kind='bytearray')
            if _isinstance(x, (_bytes, _bytearray, _memoryview)) and not a:
                return SBytes(list(_bytes(x)), kind='bytearray')
        if _isinstance(x, (list, tuple)) and _has_sym(x):
            return SBytes(list(x), kind='bytearray')
        return _bytearray(x, *a)

    @staticmethod
    def fromhex(s):
        r = _bytearray.fromhex(s)
        if ENG is not None and ENG.symbolic_buffers:
            return SBytes(list(r), kind='bytearray')
        return r


class s_memoryview:
    def __new__(cls, x):
        if x.__class__ is _EVIEW[0]:
            return _EVIEW[0](x.buf, x.a, x.b, 'memoryview', x.readonly)
        if x.__class__ is _EVIEW[2]:
            raise HarnessError('elastic: memoryview of the opaque payload')
        if _isinstance(x, SBytes):
            return SBytes(x.d, x.a, x.b, 'memoryview', x.readonly)
        return _memoryview(x)


_BACK = {s_int: _int, s_bytes: _bytes, s_bytearray: _bytearray, s_memoryview: _memoryview}
_KIND = {'bytes': _bytes, 'bytearray': _bytearray, 'memoryview': _memoryview}


def _norm(cls):
    cs = cls if _isinstance(cls, tuple) else (cls,)
    out = []
    for c in cs:
        if _isinstance(c, tuple):
            out.extend(_norm(c))
        else:
            out.append(_BACK.get(c, c))
    return tuple(out)


def s_isinstance(obj, cls):
    c = obj.__class__
    if c is SInt:
        return _int in _norm(cls)
    if c is SBytes or c is _EVIEW[0] or c is _EVIEW[2] or c is _EVIEW[3]:
        return _KIND[obj.kind] in _norm(cls)
    if c is SBool:
        cs = _norm(cls)
        return bool in cs or _int in cs
    try:
        return _isinstance(obj, cls)
    except TypeError:
        return _isinstance(obj, _norm(cls))
    finally:
        pass


def s_isinstance2(obj, cls):
    # slow path used when cls contains shim classes
    return s_isinstance(obj, cls)


def _isinstance_shim(obj, cls):
    c = obj.__class__
    if c is SInt or c is SBytes or c is SBool or c is _EVIEW[0] or c is _EVIEW[2] or c is _EVIEW[3]:
        return s_isinstance(obj, cls)
    if cls.__class__ is tuple or cls in _BACK:
        return _isinstance(obj, _norm(cls))
    return _isinstance(obj, cls)


def s_issubclass(c, cls):
    return builtins.issubclass(_BACK.get(c, c), _norm(cls))


def s_len(x):
    f = getattr(x, '__slen__', None)
    if f is not None:
        return f()
    return _len(x)


class SymIO:
    """stand-in for the ``io`` module: BytesIO that accepts symbolic byte strings"""
    class BytesIO:
        def __init__(self, initial=b''):
            self.buf = list(_bytes(initial))

        def write(self, b):
            if _isinstance(b, SBytes):
                self.buf.extend(b.items())
            else:
                self.buf.extend(_bytes(b))
            return _len(b)

        def getvalue(self):
            if _has_sym(self.buf):
                return SBytes(list(self.buf), kind='bytes')
            return _bytes(self.buf)

        def tell(self):
            return _len(self.buf)          # the stub is append-only: the position is always the end

        def getbuffer(self):
            return SBytes(list(self.buf), kind='memoryview')

        def __len__(self):
            return _len(self.buf)

        def close(self):
            pass


def sym_join(sep, parts):
    parts = list(parts)
    if any(p.__class__ is _EVIEW[0] or p.__class__ is _EVIEW[2] or p.__class__ is _EVIEW[3] for p in parts):
        return _EVIEW[4](_bytes(sep), parts)
    if not any(_isinstance(p, SBytes) for p in parts):
        return sep.join(parts)
    out = []
    for i, p in enumerate(parts):
        if i:
            out.extend(_bytes(sep))
        out.extend(p.items() if _isinstance(p, SBytes) else _bytes(p))
    c = SBytes(out, kind='bytes')
    cc = c.concrete()
    return cc if cc is not None else c


SHIMS = {'int': s_int, 'bytes': s_bytes, 'bytearray': s_bytearray, 'memoryview': s_memoryview,
         'isinstance': _isinstance_shim, 'issubclass': s_issubclass, 'len': s_len,
         '__sym_join__': sym_join}


# --------------------------------------------------------------------------------------------
# Engine
# --------------------------------------------------------------------------------------------
class Violation:
    __slots__ = ('label', 'sig', 'detail', 'inputs', 'decisions', 'harness', 'case', 'kind')

    def __init__(self, label, sig, detail, inputs, decisions):
        self.label = label
        self.sig = sig
        self.detail = detail
        self.inputs = inputs
        self.decisions = decisions


class Stats:
    def __init__(self):
        self.paths = 0
        self.aborted = 0
        self.inconclusive = 0
        self.q_sat = 0
        self.q_unsat = 0
        self.q_unknown = 0
        self.solver_s = 0.0
        self.checks = 0            # property obligations discharged (solver-decided)
        self.checks_trivial = 0    # obligations whose condition was concrete
        self.labels = {}           # label -> number of paths that reached it
        self.sym_labels = {}       # label -> number of paths where the obligation was symbolic
        self.capped = 0
        self.sites = {}            # concretisation call sites -> count
        self.picks = 0             # values committed to by pick() (sampling cuts)

    def merge(self, o):
        for k in ('paths', 'aborted', 'inconclusive', 'q_sat', 'q_unsat', 'q_unknown', 'checks',
                  'checks_trivial', 'capped', 'picks'):
            setattr(self, k, getattr(self, k) + getattr(o, k))
        self.solver_s += o.solver_s
        for k, v in o.labels.items():
            self.labels[k] = self.labels.get(k, 0) + v
        for k, v in o.sym_labels.items():
            self.sym_labels[k] = self.sym_labels.get(k, 0) + v
        for k, v in o.sites.items():
            self.sites[k] = self.sites.get(k, 0) + v

    def asdict(self):
        return dict(self.__dict__)


class Engine:
    """symbolic engine: explores all feasible paths of ``fn(engine)`` by re-execution"""
    mode = 'sym'

    def __init__(self, query_timeout_ms=20000, max_paths=200000, max_fork=300, seed=0):
        self.solver = z3.Solver()
        self.solver.set('timeout', query_timeout_ms)
        self.solver.set('random_seed', seed & 0x7fffffff)
        self.stats = Stats()
        self.max_paths = max_paths
        self.max_fork = max_fork
        self.symbolic_buffers = True
        self.elastic_mode = False  # harness switch: bytearray(<non-constant SInt>) allocates an elastic buffer
        self.format_concretize = False
        self.violations = []       # Violation objects (all of them; the runner de-duplicates)
        self.path_records = []     # per finished path: dict(decisions, inputs, obs, labels)
        self.record_paths = True
        self.export_hook = None    # callable(smt2_text, result) for cross-solver checks
        self.export_every = 0
        self._nq = 0
        self.hash_candidates = []
        self.deadline = None
        self._excl_cache = {}
        self.trace_sites = bool(os.environ.get('SYMEX_SITES'))
        self._reset_path([])

    # -- path state -------------------------------------------------------------------------
    def _reset_path(self, prefix):
        self.prefix = prefix
        self.pos = 0
        self.dec = []
        self.names = {}            # name -> counter
        self.inputs = {}           # var name -> z3 term (declared harness inputs)
        self.input_order = []
        self.nvar = 0
        self.obs = []
        self.path_labels = []
        self.path_inconclusive = False
        self.aborted = False
        self.abort_reason = None
        self.format_concretize = False
        self.elastic_mode = False
        self.hash_candidates = []
        self.int_hash_candidates = None
        self.path_state = {}       # free for stubs (hash registry, clocks, ...)
        self.path_viol = []
        self.choices = []
        self.packmap = {}
        self.known = {}
        self._sub_n = -1
        self.fixed = []            # (term, numeral) pairs known on this path; substituted before deciding

    def explore(self, fn, prefixes=None, max_depth=None):
        """explore every path below each prefix; with max_depth, stop at that many decisions and
        return the open prefixes (frontier) instead of descending."""
        global ENG
        ENG = self
        work = [list(p) for p in (prefixes or [[]])]
        frontier = []
        self.max_depth = max_depth
        while work:
            if self.stats.paths >= self.max_paths or (self.deadline and time.time() > self.deadline):
                self.stats.capped += _len(work)
                break
            self._reset_path(work.pop())
            self.work = work
            self.solver.push()
            cut = False
            try:
                fn(self)
            except PathAbort:
                pass
            finally:
                self.solver.pop()
            if self.aborted:
                cut = True
                if self.abort_reason == 'frontier':
                    frontier.append(list(self.dec))
                elif self.abort_reason == 'inconclusive':
                    self.stats.inconclusive += 1
                else:
                    self.stats.aborted += 1
            self.stats.paths += 1
            if not cut:
                if self.path_inconclusive:
                    self.stats.inconclusive += 1
                for lb in set(self.path_labels):
                    self.stats.labels[lb] = self.stats.labels.get(lb, 0) + 1
        return frontier

    # -- solver plumbing ----------------------------------------------------------------------
    def _check(self, *assumptions):
        t = time.time()
        r = self.solver.check(*assumptions)
        self.stats.solver_s += time.time() - t
        if r == z3.sat:
            self.stats.q_sat += 1
        elif r == z3.unsat:
            self.stats.q_unsat += 1
        else:
            self.stats.q_unknown += 1
        self._nq += 1
        if self.export_hook is not None and self.export_every and self._nq % self.export_every == 0:
            try:
                self.export_hook(self._export(assumptions), str(r))
            except Exception:
                pass
        return r

    def _export(self, assumptions):
        s = z3.Solver()
        for a in self.solver.assertions():
            s.add(a)
        for a in assumptions:
            s.add(a)
        return s.to_smt2()

    def add(self, c):
        self.solver.add(c)

    def fresh(self, name, lo=None, hi=None):
        self.nvar += 1
        v = z3.Int('%s!%d' % (name, self.nvar))
        if lo is not None:
            self.solver.add(v >= lo)
        if hi is not None:
            self.solver.add(v <= hi)
        return SInt(v)

    def _abort(self, reason):
        self.aborted = True
        if self.abort_reason is None:
            self.abort_reason = reason
        raise PathAbort(reason)

    def _decide(self, n_alt, feasible_fn):
        """generic decision point with n_alt alternatives"""
        if self.aborted:
            raise PathAbort('aborted')
        if self.pos < _len(self.prefix):
            d = self.prefix[self.pos]
        else:
            if self.max_depth is not None and self.pos >= self.max_depth:
                self._abort('frontier')
            alts = feasible_fn()
            if not alts:
                self._abort('infeasible')
            d = alts[0]
            for other in alts[1:]:
                self.work.append(self.dec + [other])
        self.pos += 1
        self.dec.append(d)
        return d

    def branch(self, cond):
        if cond is True or cond is False:
            return cond
        if self.fixed:
            cond = self._subst(cond)
        cond = z3.simplify(cond)
        if z3.is_true(cond):
            return True
        if z3.is_false(cond):
            return False

        def feas():
            alts = []
            r = self._check(cond)
            if r != z3.unsat:
                alts.append(1)
                if r == z3.unknown:
                    self.path_inconclusive = True
            r = self._check(z3.Not(cond))
            if r != z3.unsat:
                alts.append(0)
                if r == z3.unknown:
                    self.path_inconclusive = True
            return alts
        d = self._decide(2, feas)
        self.solver.add(cond if d else z3.Not(cond))
        if d and cond.decl().kind() == z3.Z3_OP_EQ:
            a, b = cond.arg(0), cond.arg(1)
            if z3.is_int_value(b) and not z3.is_int_value(a):
                self._learn_eq(a, b.as_long())
            elif z3.is_int_value(a) and not z3.is_int_value(b):
                self._learn_eq(b, a.as_long())
        return bool(d)

    def const_of(self, e):
        """int value of term e if it is syntactically constant under what is known on this path"""
        if self.fixed:
            e = self._subst(e)
        e = z3.simplify(e)
        if z3.is_int_value(e):
            return e.as_long()
        return None

    def _subst(self, e):
        """z3.substitute(e, *self.fixed) without the per-call overhead of the Python wrapper"""
        e = z3.simplify(e)                 # learned terms are in simplified form: normalise before matching
        n = _len(self.fixed)
        if self._sub_n != n:
            self._sub_from = (z3.Ast * n)(*[p[0].as_ast() for p in self.fixed])
            self._sub_to = (z3.Ast * n)(*[p[1].as_ast() for p in self.fixed])
            self._sub_n = n
        ctx = e.ctx
        return z3.z3._to_expr_ref(z3.Z3_substitute(ctx.ref(), e.as_ast(), n, self._sub_from, self._sub_to), ctx)

    def _learn_eq(self, e, v):
        """remember e == v on this path; if e is linear in a single variable, also the variable's value"""
        eid = e.get_id()
        for p in self.fixed:
            if p[0].get_id() == eid:
                return
        self.fixed.append((e, z3.IntVal(v)))
        self.known[eid] = v
        c = 0
        x = None
        k = 1
        terms = e.children() if e.decl().kind() == z3.Z3_OP_ADD else [e]
        for t in terms:
            if z3.is_int_value(t):
                c += t.as_long()
            elif t.num_args() == 0 and t.decl().kind() == z3.Z3_OP_UNINTERPRETED:
                if x is not None:
                    return
                x, k = t, 1
            elif (t.decl().kind() == z3.Z3_OP_MUL and t.num_args() == 2 and z3.is_int_value(t.arg(0))
                  and t.arg(1).num_args() == 0 and t.arg(1).decl().kind() == z3.Z3_OP_UNINTERPRETED):
                if x is not None:
                    return
                x, k = t.arg(1), t.arg(0).as_long()
            else:
                return
        if x is not None and x is not e and k != 0 and (v - c) % k == 0:
            self.fixed.append((x, z3.IntVal((v - c) // k)))
            self.known[x.get_id()] = (v - c) // k

    def concretize(self, e):
        """fork over the feasible values of the integer term e (model-guided).  The decision records
        the *value* so that re-execution of a prefix does not depend on which model z3 returns.
        Decisions: ('v', value) = "e == value";  ('x', (v1..vk)) = "e is none of v1..vk" (cumulative,
        at most one per site in a prefix)."""
        if _isinstance(e, _int):
            return e
        if self.fixed:
            e = self._subst(e)
        e = z3.simplify(e)
        if z3.is_int_value(e):
            return e.as_long()
        excluded = ()
        if self.trace_sites:
            import sys as _sys
            f = _sys._getframe(1)
            while f is not None and f.f_code.co_filename.endswith('symex/core.py'):
                f = f.f_back
            site = '%s:%d' % (f.f_code.co_filename, f.f_lineno) if f else '?'
            self.stats.sites[site] = self.stats.sites.get(site, 0) + 1
        while True:
            if self.aborted:
                raise PathAbort('aborted')
            if self.pos < _len(self.prefix):
                d = self.prefix[self.pos]
                self.pos += 1
                self.dec.append(d)
            else:
                if self.max_depth is not None and self.pos >= self.max_depth:
                    self._abort('frontier')
                r = self._check()
                if r != z3.sat:
                    if r == z3.unknown:
                        self.path_inconclusive = True
                        self._abort('inconclusive')
                    self._abort('infeasible')
                v = self.solver.model().eval(e, model_completion=True).as_long()
                d = ('v', v)
                if _len(excluded) + 1 > self.max_fork:
                    self.stats.capped += 1
                    self.path_inconclusive = True
                else:
                    r = self._check(e != v)
                    if r != z3.unsat:
                        if r == z3.unknown:
                            self.path_inconclusive = True
                        base = self.dec[:-1] if excluded else self.dec
                        self.work.append(base + [('x', excluded + (v,))])
                self.pos += 1
                self.dec.append(d)
            if d[0] == 'v':
                self.solver.add(e == d[1])
                self._learn_eq(e, d[1])
                return d[1]
            excluded = d[1]
            self.solver.add(self._excl(e, excluded))

    def _excl(self, e, excluded):
        """constraint  e not in excluded ; cached incrementally because building k disequalities
        through the z3 Python API on every re-execution would dominate the run time"""
        cache = self._excl_cache
        key = (e.get_id(), excluded)
        c = cache.get(key)
        if c is None:
            if _len(cache) > 200000:
                cache.clear()
            ne = e != excluded[-1]
            c = (ne if _len(excluded) == 1 else z3.And(self._excl(e, excluded[:-1]), ne), e)
            cache[key] = c
        return c[0]

    def alloc_size(self, x):
        return self.concretize(x.e)

    def hash_symbolic_bytes(self, sb):
        """hash of a symbolic byte string used as a dictionary key: decide equality with each of the
        declared candidate keys; if it equals none of them it cannot be found in any table built from
        those keys, so any hash value is sound."""
        for c in self.hash_candidates:
            r = (sb == c)
            if r is True or (r is not False and bool(r)):
                return hash(_bytes(c))
        return 0x5eed

    # -- harness API ----------------------------------------------------------------------------
    def _name(self, name):
        k = self.names.get(name, 0)
        self.names[name] = k + 1
        return '%s#%d' % (name, k)

    def int(self, name, lo=None, hi=None):
        nm = self._name(name)
        v = z3.Int(nm)
        if lo is not None:
            self.solver.add(v >= lo)
        if hi is not None:
            self.solver.add(v <= hi)
        self.inputs[nm] = v
        return SInt(v)

    def bool(self, name):
        nm = self._name(name)
        v = z3.Int(nm)
        self.solver.add(v >= 0, v <= 1)
        self.inputs[nm] = v
        return SBool(v == 1)

    def bytes(self, name, n, kind='bytes'):
        nm = self._name(name)
        out = []
        for i in range(n):
            v = z3.Int('%s[%d]' % (nm, i))
            self.solver.add(v >= 0, v <= 255)
            self.inputs['%s[%d]' % (nm, i)] = v
            out.append(SInt(v))
        return SBytes(out, kind=kind)

    def elastic(self, name, lo, hi):
        """opaque payload whose LENGTH is a solver variable in [lo, hi] (see symex/elastic.py); switches the path
        to elastic mode.  Returns (payload, length)."""
        n = self.int(name + '.len', lo, hi)
        self.elastic_mode = True
        return _EVIEW[2](n, self._name(name)), n

    def choice(self, n, name=''):
        """discrete nondeterministic choice in range(n) (a decision with n feasible alternatives)"""
        if n <= 1:
            return 0
        d = self._decide(n, lambda: list(range(n)))
        self.choices.append(d)
        return d

    def pick(self, x):
        """commit to ONE solver-chosen value of x without exploring the others (a deliberate cut: the caller
        states it in its bounds).  The value is recorded as an input so that native replay sees the same."""
        if not _isinstance(x, SInt):
            return x
        r = self._check()
        if r != z3.sat:
            self._abort('infeasible')
        v = self.solver.model().eval(x.e, model_completion=True).as_long()
        self.solver.add(x.e == v)
        self._learn_eq(z3.simplify(x.e), v)
        self.stats.picks += 1
        return v

    def assume(self, c, check=True):
        if c is True:
            return
        if c is False:
            self._abort('assume')
        self.solver.add(_be(c))
        if not check:
            return                      # caller knows the constraint is satisfiable (e.g. a fresh variable's range)
        r = self._check()
        if r == z3.unsat:
            self._abort('assume')
        if r == z3.unknown:
            self.path_inconclusive = True

    def model_inputs(self, model):
        out = {}
        for nm, v in self.inputs.items():
            out[nm] = model.eval(v, model_completion=True).as_long()
        return out

    def check(self, cond, label, detail=None, sig=None):
        """property obligation: must hold for every value on this path"""
        self.path_labels.append(label)
        if _isinstance(cond, SInt):
            cond = cond != 0
        if not _isinstance(cond, SBool):
            self.stats.checks_trivial += 1
            if not cond:
                self._violation(label, sig or label, detail, None)
                self._abort('violated')
            return True
        e = cond.e
        if self.fixed:
            e = self._subst(e)
        e = z3.simplify(e)
        if z3.is_true(e):
            self.stats.checks_trivial += 1
            return True
        self.stats.checks += 1
        self.stats.sym_labels[label] = self.stats.sym_labels.get(label, 0) + 1
        r = self._check(z3.Not(e))
        if r == z3.unsat:
            return True
        if r == z3.unknown:
            self.path_inconclusive = True
            return True
        self._violation(label, sig or label, detail, self.solver.model())
        # continue with the values for which the obligation holds (if any)
        self.solver.add(e)
        r = self._check()
        if r != z3.sat:
            self._abort('violated')
        return False

    def fail(self, label, sig=None, detail=None):
        """unconditional failure on this path (e.g. an exception escaped the library)"""
        self.path_labels.append(label)
        self.stats.checks_trivial += 1
        self._violation(label, sig or label, detail, None, 'fail')

    def _violation(self, label, sig, detail, model, kind='check'):
        if model is None:
            r = self._check()
            if r != z3.sat:
                self.path_inconclusive = True
                return
            model = self.solver.model()
        v = Violation(label, sig, detail, self.model_inputs(model), list(self.choices))
        v.kind = kind
        self.violations.append(v)
        self.path_viol.append(v)

    def reach(self, label):
        self.path_labels.append(label)

    def observe(self, key, val):
        self.obs.append((key, val))

    def finish_path(self):
        """called by the runner wrapper at the end of a completed path: returns a record with a model
        of the path condition and the observations evaluated under it (for native replay)"""
        r = self._check()
        if r != z3.sat:
            if r == z3.unknown:
                self.path_inconclusive = True
            return None
        m = self.solver.model()
        return {'inputs': self.model_inputs(m), 'decisions': list(self.choices),
                'obs': [(k, eval_under(m, v)) for k, v in self.obs],
                'labels': sorted(set(self.path_labels))}

    def is_sym(self):
        return True


OPAQUE = '<opaque>'


class Opaque:
    """marks an observation value that is the output of an ideal function (not compared literally)"""
    def __init__(self, n=None):
        self.n = n


def eval_under(m, v):
    """concrete value of a (possibly symbolic) observation under model m"""
    if _isinstance(v, SInt):
        return m.eval(v.e, model_completion=True).as_long()
    if _isinstance(v, SBool):
        return z3.is_true(m.eval(v.e, model_completion=True))
    if _isinstance(v, SFix):
        n = v.n
        return n if _isinstance(n, _int) else m.eval(n, model_completion=True).as_long()
    if _isinstance(v, SBytes):
        return _bytes(x if x.__class__ is _int else m.eval(_e(x), model_completion=True).as_long() for x in v.items())
    if _isinstance(v, Opaque):
        return OPAQUE
    if _isinstance(v, (_bytes, _bytearray, _memoryview)):
        return _bytes(v)
    if _isinstance(v, (list, tuple)):
        return [eval_under(m, x) for x in v]
    if _isinstance(v, dict):
        return {str(k): eval_under(m, x) for k, x in v.items()}
    return v


class ReplayDone(BaseException):
    """native replay of a recorded violation reached the end of the recording after the failure was observed"""


class ConcreteEngine:
    """native replay: the same harness body, plain Python values taken from a model"""
    mode = 'native'
    symbolic_buffers = False
    format_concretize = True

    def __init__(self, inputs, decisions):
        self.inputs_in = inputs
        self.decisions = list(decisions)
        self.cpos = 0
        self.names = {}
        self.obs = []
        self.failed = []           # (label, sig, detail)
        self.path_labels = []
        self.hash_candidates = []
        self.path_state = {}
        self.aborted = False

    def _name(self, name):
        k = self.names.get(name, 0)
        self.names[name] = k + 1
        return '%s#%d' % (name, k)

    def int(self, name, lo=None, hi=None):
        nm = self._name(name)
        if nm not in self.inputs_in:
            self._missing(nm)
        return self.inputs_in[nm]

    def _missing(self, nm):
        if self.failed:
            # replay of a recorded violation: the recording stops at the failed check, the run may go on
            raise ReplayDone()
        raise HarnessError('native replay: missing input %s' % nm)

    def bool(self, name):
        nm = self._name(name)
        if nm not in self.inputs_in:
            self._missing(nm)
        return bool(self.inputs_in[nm])

    def bytes(self, name, n, kind='bytes'):
        nm = self._name(name)
        if n and '%s[0]' % nm not in self.inputs_in:
            self._missing(nm)
        b = _bytes(self.inputs_in['%s[%d]' % (nm, i)] for i in range(n))
        if kind == 'bytearray':
            return _bytearray(b)
        if kind == 'memoryview':
            return _memoryview(b)
        return b

    def elastic(self, name, lo, hi):
        n = self.int(name + '.len', lo, hi)
        nm = self._name(name)
        b = _bytearray((7 * i + 3) & 0xFF for i in range(n))
        for k, v in self.inputs_in.items():        # octets the symbolic run looked at: the model's values
            if k.startswith(nm + '@'):
                i = _int(k[_len(nm) + 1:])
                if i < n:
                    b[i] = v
        return _bytes(b), n

    def choice(self, n, name=''):
        if n <= 1:
            return 0
        # choices are recorded interleaved with branch decisions; the harness API hands the list of
        # *choice* decisions only
        if self.cpos >= len(self.decisions):
            if self.failed:
                # replay of a recorded violation: the recording stops at the failed check, the run may go on
                raise ReplayDone()
            raise HarnessError('native replay: ran out of recorded choices')
        d = self.decisions[self.cpos]
        self.cpos += 1
        return d

    def pick(self, x):
        return x

    def assume(self, c, check=True):
        if not c:
            raise HarnessError('native replay: assumption false under the model')

    def check(self, cond, label, detail=None, sig=None):
        self.path_labels.append(label)
        if not cond:
            self.failed.append((label, sig or label, detail))
            return False
        return True

    def fail(self, label, sig=None, detail=None):
        self.path_labels.append(label)
        self.failed.append((label, sig or label, detail))

    def reach(self, label):
        self.path_labels.append(label)

    def observe(self, key, val):
        self.obs.append((key, val))

    def is_sym(self):
        return False

    def add(self, c):
        pass


def norm_obs(v):
    if _isinstance(v, Opaque):
        return OPAQUE
    if _isinstance(v, (_bytes, _bytearray, _memoryview)):
        return _bytes(v)
    if _isinstance(v, bool):
        return v
    if _isinstance(v, (list, tuple)):
        return [norm_obs(x) for x in v]
    if _isinstance(v, dict):
        return {str(k): norm_obs(x) for k, x in v.items()}
    return v
