# symex.vloop -- the real asyncio event loop (BaseEventLoop: call_at, timer heap, _run_once, tasks,
# futures, wait_for, timeouts) on a virtual clock.  The clock is fixed-point (microsecond ticks); in the
# symbolic engine it is an SFix over z3 Int terms, so the order in which timers and external events
# fire is decided by the solver: TimerHandle.__lt__ -> SBool.__bool__ -> Engine.branch.
import asyncio
import asyncio.base_events as be
from . import core
from .core import SFix, SInt, PathAbort

be.MAXIMUM_SELECT_TIMEOUT = 24 * 3600 * 365


class Deadlock(Exception):
    """nothing is runnable and no timer is pending"""


class _VSel:
    def __init__(self, loop):
        self.loop = loop

    def select(self, timeout):
        eng = core.ENG
        if eng is not None and getattr(eng, 'aborted', False):
            raise PathAbort('aborted')
        if timeout is None:
            raise Deadlock()
        self.loop._now = self.loop._now + timeout
        self.loop.steps += 1
        if self.loop.steps > self.loop.max_steps:
            raise Deadlock('step budget exhausted')
        return []

    def close(self):
        pass


class VLoop(be.BaseEventLoop):
    def __init__(self, max_steps=10000):
        super().__init__()
        self._now = SFix(0)
        self._selector = _VSel(self)
        self._clock_resolution = SFix(1)
        self.steps = 0
        self.max_steps = max_steps
        self.errors = []
        self.set_exception_handler(self._on_error)

    def _on_error(self, loop, ctx):
        exc = ctx.get('exception')
        if isinstance(exc, PathAbort):
            return
        self.errors.append(ctx)

    def time(self):
        return self._now

    def _process_events(self, ev):
        pass

    def _write_to_self(self):
        pass

    def now_ms(self, eng):
        """floor(now / 1 ms) as int / SInt (fresh variable tied by linear constraints; no division)"""
        n = self._now.n
        if isinstance(n, int):
            return n // 1000
        c = eng.const_of(n) if hasattr(eng, 'const_of') else None
        if c is not None:
            return c // 1000
        k = eng.fresh('ms')
        eng.add(k.e * 1000 <= n)
        eng.add(n < k.e * 1000 + 1000)
        return k

    def at_ms(self, ms):
        """absolute loop time for a millisecond instant (int / SInt)"""
        if isinstance(ms, SInt):
            return SFix(ms.e * 1000)
        return SFix(int(ms) * 1000)


def run(main_factory, max_steps=10000):
    """run ``await main_factory(loop)`` to completion on a fresh virtual loop; returns (loop, result).
    PathAbort raised inside tasks is re-raised here."""
    loop = VLoop(max_steps)
    asyncio.set_event_loop(loop)
    try:
        try:
            res = loop.run_until_complete(main_factory(loop))
        finally:
            eng = core.ENG
            if eng is not None and getattr(eng, 'aborted', False):
                raise PathAbort('aborted')
    finally:
        try:
            # cancel whatever is left without running it
            for t in asyncio.all_tasks(loop):
                t.cancel()
        except BaseException:
            pass
        asyncio.set_event_loop(None)
        try:
            loop._ready.clear()
            loop._scheduled.clear()
            be.BaseEventLoop.close(loop)
        except BaseException:
            pass
    return loop, res


async def sleep_until(loop, when):
    """suspend until the absolute virtual instant ``when`` (SFix)"""
    fut = loop.create_future()
    loop.call_at(when, lambda: (not fut.done()) and fut.set_result(None))
    await fut
