# symex.loader -- import ndn.* from $VERIF_REPO/src (default /repo/src), always from current source.
#
# Symbolic mode: a meta-path finder loads every ndn.* module with a handful of builtins replaced in
# the module namespace *before* the module body runs (so that default arguments such as
# ``val_base_type=int`` capture them), and replaces ``struct`` / ``io`` afterwards.  The function
# bodies are the repository's own.  The single source-level rewrite is ``b''.join(x)`` ->
# ``__sym_join__(b'', x)`` (bytes.join is C code that rejects proxy objects).
# Native mode: only sys.path is set; nothing is replaced.
import ast
import importlib.abc
import importlib.machinery
import importlib.util
import os
import sys

REPO = os.environ.get('VERIF_REPO', '/repo')
ROOT = os.path.join(REPO, 'src')


class _JoinRewriter(ast.NodeTransformer):
    def visit_Call(self, node):
        self.generic_visit(node)
        f = node.func
        if (isinstance(f, ast.Attribute) and f.attr == 'join' and isinstance(f.value, ast.Constant)
                and isinstance(f.value.value, bytes) and len(node.args) == 1 and not node.keywords):
            return ast.copy_location(
                ast.Call(func=ast.Name(id='__sym_join__', ctx=ast.Load()), args=[f.value, node.args[0]],
                         keywords=[]), node)
        return node


class SymLoader(importlib.machinery.SourceFileLoader):
    def exec_module(self, module):
        from . import core
        module.__dict__.update(core.SHIMS)
        super().exec_module(module)
        import struct as _st
        import io as _io
        d = module.__dict__
        if d.get('struct') is _st:
            d['struct'] = core.SymStruct
        if d.get('io') is _io:
            d['io'] = core.SymIO
        for hook in POST_EXEC_HOOKS:
            hook(module)

    def get_code(self, fullname):       # always compile from the current source, never from .pyc
        fn = self.get_filename(fullname)
        src = self.get_data(fn)
        return self.source_to_code(src, fn)

    def source_to_code(self, data, path, *, _optimize=-1):
        tree = ast.parse(data, filename=path)
        tree = _JoinRewriter().visit(tree)
        ast.fix_missing_locations(tree)
        return compile(tree, path, 'exec', dont_inherit=True, optimize=_optimize)


class NativeLoader(importlib.machinery.SourceFileLoader):
    def exec_module(self, module):
        super().exec_module(module)
        for hook in POST_EXEC_HOOKS:
            hook(module)

    def get_code(self, fullname):
        fn = self.get_filename(fullname)
        return self.source_to_code(self.get_data(fn), fn)


POST_EXEC_HOOKS = []


class Finder(importlib.abc.MetaPathFinder):
    def __init__(self, loader_cls):
        self.loader_cls = loader_cls

    def find_spec(self, fullname, path, target=None):
        if not (fullname == 'ndn' or fullname.startswith('ndn.')):
            return None
        base = os.path.join(ROOT, *fullname.split('.'))
        init = os.path.join(base, '__init__.py')
        if os.path.isdir(base) and os.path.exists(init):
            return importlib.util.spec_from_file_location(
                fullname, init, loader=self.loader_cls(fullname, init), submodule_search_locations=[base])
        if os.path.exists(base + '.py'):
            return importlib.util.spec_from_file_location(
                fullname, base + '.py', loader=self.loader_cls(fullname, base + '.py'))
        return None


_installed = None


def install(mode):
    """mode: 'sym' (shimmed namespaces) or 'native' (plain import from $VERIF_REPO/src)"""
    global _installed
    if _installed is not None:
        if _installed != mode:
            raise RuntimeError('loader already installed in mode %s' % _installed)
        return
    for k in list(sys.modules):
        if k == 'ndn' or k.startswith('ndn.'):
            raise RuntimeError('ndn imported before the loader was installed')
    sys.dont_write_bytecode = True
    sys.meta_path.insert(0, Finder(SymLoader if mode == 'sym' else NativeLoader))
    _installed = mode
    import logging
    logging.disable(logging.CRITICAL)


def mode():
    return _installed


class _LogName:
    """stand-in for the ``Name`` module where it is only used to render log arguments (logging is disabled
    globally; rendering a name with symbolic components would enumerate every byte value)"""
    def __init__(self, real):
        self._real = real

    def to_str(self, name):
        return '<name>'

    def __getattr__(self, k):
        return getattr(self._real, k)


LOG_ONLY_NAME_MODULES = ('ndn.security.validator.digest_validator',)


def _log_hook(module):
    if module.__name__ in LOG_ONLY_NAME_MODULES and 'Name' in module.__dict__ and \
            not isinstance(module.__dict__['Name'], _LogName):
        module.__dict__['Name'] = _LogName(module.__dict__['Name'])


POST_EXEC_HOOKS.append(_log_hook)


def _concretizing(fn):
    """wrapper for a standard-library function that needs real bytes / ints (C boundary): symbolic arguments are
    concretised through the engine (one path per value, like formatting)"""
    from . import core

    def conc(v):
        if isinstance(v, core.SBytes):
            c = v.concrete()
            if c is None:
                c = bytes(core.ENG.concretize(core._e(x)) if x.__class__ is not int else x for x in v.items())
            return c
        if isinstance(v, core.SInt):
            return core.ENG.concretize(v.e)
        return v

    def wrapper(*a, **k):
        return fn(*[conc(x) for x in a], **{kk: conc(vv) for kk, vv in k.items()})
    wrapper.__wrapped__ = fn
    wrapper.__name__ = getattr(fn, '__name__', 'wrapped')
    return wrapper


def _stdlib_bytes_hook(module):
    """ndn modules that import byte-consuming helpers from the standard library (urllib.parse.quote, base64, binascii)
    get concretising wrappers - only in symbolic mode"""
    if _installed != 'sym':
        return
    import urllib.parse as up
    import base64
    import binascii
    targets = {}
    for lib in (up, base64, binascii):
        for name in dir(lib):
            f = getattr(lib, name)
            if callable(f) and not isinstance(f, type) and not name.startswith('_'):
                targets[id(f)] = f
    d = module.__dict__
    for k, v in list(d.items()):
        if id(v) in targets and targets[id(v)] is v:
            d[k] = _concretizing(v)


POST_EXEC_HOOKS.append(_stdlib_bytes_hook)
