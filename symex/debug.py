# in-process single-case runner for harness development:  python -m symex.debug C01 data_fields '{"signer":"none",...}'
import importlib, json, os, sys, time, traceback
sys.path.insert(0, os.path.dirname(os.path.dirname(os.path.abspath(__file__))))
from symex import loader, crypto, core


def main():
    pid, hname = sys.argv[1], sys.argv[2]
    case = json.loads(sys.argv[3]) if len(sys.argv) > 3 else None
    loader.install('sym')
    crypto.install()
    mod = importlib.import_module('harnesses.' + pid.lower())
    if case is None:
        cs = [c for c in mod.cases(os.environ.get('VERIF_TIER', 'quick'), 0) if c[0] == hname]
        case = cs[int(os.environ.get('CASE', '0'))][1]
        print('case', case, 'of', len(cs))
    fn = mod.HARNESSES[hname]
    eng = core.Engine()
    recs = []

    def body(e):
        crypto.reset()
        try:
            fn(e, case)
        except core.PathAbort:
            raise
        except Exception:
            traceback.print_exc()
            raise
        if not e.aborted and len(recs) < 3:
            recs.append(e.finish_path())
    t = time.time()
    eng.explore(body)
    print(json.dumps(eng.stats.asdict(), default=str))
    print('time', round(time.time() - t, 2))
    seen = set()
    for v in eng.violations:
        if (v.label, v.sig) in seen:
            continue
        seen.add((v.label, v.sig))
        print('VIOL', v.label, v.sig, v.detail, v.inputs, v.decisions)
    if os.environ.get('NATIVE'):
        from symex.native import NativeClient
        c = NativeClient()
        for r in recs:
            print('native:', c.run('harnesses.' + pid.lower(), hname, case, r['inputs'], r['decisions']))
            print('sym   :', [(k, core.norm_obs(v)) for k, v in r['obs']], r['labels'])
        c.close()


main()
