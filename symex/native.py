# symex.native -- companion process: runs a harness body on concrete inputs against the library
# imported plainly from $VERIF_REPO/src (no namespace shims).  Protocol: length-prefixed pickles.
import importlib
import os
import pickle
import signal
import struct
import sys
import traceback


def _read(f):
    h = f.read(4)
    if len(h) < 4:
        return None
    n = struct.unpack('!I', h)[0]
    return pickle.loads(f.read(n))


def _write(f, obj):
    b = pickle.dumps(obj)
    f.write(struct.pack('!I', len(b)) + b)
    f.flush()


class _Timeout(Exception):
    pass


def _alarm(sig, frm):
    raise _Timeout()


def run_native(module, hname, case, inputs, decisions, timeout=60):
    from . import core, crypto
    mod = importlib.import_module(module)
    eng = core.ConcreteEngine(inputs, decisions)
    core.ENG = eng
    crypto.reset()
    signal.signal(signal.SIGALRM, _alarm)
    signal.alarm(timeout)
    try:
        mod.HARNESSES[hname](eng, case)
    except core.ReplayDone:
        pass
    except _Timeout:
        return ('err', 'native replay timed out')
    except core.HarnessError as e:
        return ('err', 'HarnessError: %s\n%s' % (e, traceback.format_exc()))
    except Exception:
        return ('err', traceback.format_exc())
    finally:
        signal.alarm(0)
        core.ENG = None
    return ('ok', [(k, core.norm_obs(v)) for k, v in eng.obs], eng.failed, sorted(set(eng.path_labels)))


def main():
    out = os.fdopen(os.dup(1), 'wb')
    os.dup2(2, 1)
    inp = sys.stdin.buffer
    sys.path.insert(0, os.path.dirname(os.path.dirname(os.path.abspath(__file__))))
    from symex import loader
    loader.install('native')
    from symex import crypto
    crypto.install()
    while True:
        msg = _read(inp)
        if msg is None:
            break
        if msg[0] == 'run':
            try:
                res = run_native(*msg[1:])
            except BaseException:
                res = ('err', traceback.format_exc())
            _write(out, res)
        elif msg[0] == 'quit':
            break


class NativeClient:
    def __init__(self):
        import subprocess
        here = os.path.dirname(os.path.dirname(os.path.abspath(__file__)))
        env = dict(os.environ)
        env['PYTHONPATH'] = here + os.pathsep + env.get('PYTHONPATH', '')
        env['PYTHONHASHSEED'] = '0'
        self.p = subprocess.Popen([sys.executable, '-m', 'symex.native'], stdin=subprocess.PIPE,
                                  stdout=subprocess.PIPE, env=env, cwd=here)

    def run(self, module, hname, case, inputs, decisions, timeout=60):
        try:
            _write(self.p.stdin, ('run', module, hname, case, inputs, decisions, timeout))
            r = _read(self.p.stdout)
        except (BrokenPipeError, OSError):
            r = None
        if r is None:
            self.close()
            self.__init__()
            return ('err', 'native worker died')
        return r

    def close(self):
        try:
            self.p.stdin.close()
            self.p.wait(timeout=5)
        except Exception:
            try:
                self.p.kill()
            except Exception:
                pass


if __name__ == '__main__':
    main()
