# symex.api -- helpers for harness and oracle code that must run both on proxies (symbolic mode)
# and on plain Python values (native replay).
import z3
from . import core
from .core import SInt, SBool, SBytes, SFix, Opaque, HarnessError, PathAbort
from . import elastic          # registers the elastic-buffer classes with the shims in core
from .elastic import EView, EBlob


def sym():
    return core.ENG is not None and core.ENG.mode == 'sym'


def And(*xs):
    r = True
    for x in xs:
        if isinstance(x, SInt):
            x = x != 0
        if isinstance(x, SBool) or isinstance(r, SBool):
            if x is True:
                continue
            if x is False:
                return False
            if r is True:
                r = x
            else:
                r = SBool(z3.And(r.e, x.e))
        else:
            if not x:
                return False
    return r


def Or(*xs):
    r = False
    for x in xs:
        if isinstance(x, SInt):
            x = x != 0
        if isinstance(x, SBool) or isinstance(r, SBool):
            if x is False:
                continue
            if x is True:
                return True
            if r is False:
                r = x
            else:
                r = SBool(z3.Or(r.e, x.e))
        else:
            if x:
                return True
    return r


def Not(x):
    if isinstance(x, SBool):
        return SBool(z3.Not(x.e))
    if isinstance(x, SInt):
        return x == 0
    return not x


def Implies(a, b):
    return Or(Not(a), b)


def Iff(a, b):
    return And(Implies(a, b), Implies(b, a))


def Ite(c, a, b):
    """integer if-then-else"""
    if isinstance(c, SBool):
        return SInt(z3.If(c.e, core._e(a), core._e(b)))
    return a if c else b


def blist(x):
    """list of byte elements (ints / SInts) of any byte-string-like value"""
    if isinstance(x, SBytes):
        return x.items()
    if x is None:
        return None
    if isinstance(x, list):
        return x
    if x.__class__ is EView or x.__class__ is EBlob:
        raise HarnessError('elastic: element list of a window that contains the opaque region')
    return list(bytes(x))


def bwrap(lst):
    """byte string from a list of elements: real bytes when concrete"""
    for v in lst:
        if v.__class__ is not int:
            return SBytes(list(lst), kind='bytes')
    return bytes(lst)


def beq(a, b):
    """equality of two byte-string-likes (bool or SBool)"""
    if a is None or b is None:
        return a is None and b is None
    a, b = blist(a), blist(b)
    if len(a) != len(b):
        return False
    return bwrap(a) == bwrap(b)


def bcat(*parts):
    out = []
    for p in parts:
        out.extend(blist(p))
    return bwrap(out)


def mkbuf(n, fill=0):
    """a writable buffer of n bytes pre-filled with ``fill`` (SBytes in symbolic mode, bytearray natively)"""
    if core.ENG is not None and core.ENG.mode == 'sym':
        return SBytes([fill] * n, kind='bytearray')
    return bytearray([fill]) * n


def blen(x):
    return len(x)


def as_int(x):
    """concretise (forks in symbolic mode)"""
    if isinstance(x, SInt):
        return core.ENG.concretize(x.e)
    return int(x)


def obs_bytes(x):
    if x is None:
        return None
    return bwrap(blist(x))


def exc_sig(e, root=None):
    """ExcClass@module.function of the innermost frame inside the ndn package"""
    import os
    from . import loader
    if isinstance(e, RecursionError):
        return 'RecursionError'          # the frame where the limit is hit depends on the interpreter stack depth
    root = os.path.join(loader.ROOT, 'ndn') + os.sep
    tb = e.__traceback__
    where = None
    while tb is not None:
        fn = tb.tb_frame.f_code.co_filename
        if fn.startswith(root):
            mod = fn[len(loader.ROOT) + 1:-3].replace(os.sep, '.')
            where = '%s.%s' % (mod, tb.tb_frame.f_code.co_name)
        tb = tb.tb_next
    return '%s@%s' % (type(e).__name__, where)


def mview(x):
    """memoryview(x) for real and symbolic byte strings"""
    return core.s_memoryview(x)


def tobytes(x):
    """bytes(x) for real and symbolic byte strings"""
    return core.s_bytes(x)
