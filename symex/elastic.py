# symex.elastic -- byte buffers with ONE opaque region of *symbolic length* ("elastic payload").
#
# A payload handed to an encoder as an ``EBlob`` has a solver variable n as its length and opaque content
# (content octet i is  Select(arr, i) ).  A buffer allocated with a non-constant symbolic size (``bytearray(SInt)``
# inside shimmed library code) becomes an ``EBuf``: a materialised head ``pre`` (offsets 0..P), the gap holding the
# blob (offsets P..P+n) and a materialised tail ``post`` (offsets P+n..total).  Offsets are ints or SInts; an offset
# is located by asking whether  off  or  off - n  is constant on the path (falling back to a solver-decided case
# split).  Slices that lie entirely in the head or the tail are ordinary ``SBytes`` windows sharing storage with
# the buffer, so everything the engine already knows about byte strings applies to them; only windows that contain
# (part of) the gap stay ``EView`` objects.
#
# Soundness notes (part of every claim that uses elastic buffers):
#   * the gap is never written except by placing the blob; a write into it is a HarnessError (inconclusive), never
#     a silent success;
#   * equality of a window with the blob is *positional identity* (same buffer, window == [P, P+n)), which implies
#     bytewise equality because the gap is immutable;
#   * an ideal hash / signature over a message that contains the gap is an unconstrained fresh value (an
#     over-approximation of any real function) - harnesses that use elastic buffers must not depend on such a
#     value being *equal* to another one (C01 / C16 do not: they check structure and positions).
import z3
from . import core
from .core import SInt, SBool, SBytes, HarnessError, _e, _int, _isinstance, _len


def _eng():
    return core.ENG


def _const(x):
    """int if x is syntactically constant on this path, else None"""
    if x.__class__ is _int:
        return x
    if _isinstance(x, SInt):
        return _eng().const_of(x.e)
    return x.__index__()


def _const_s(x):
    """like _const, but falls back to the solver: the value of x if it is the same in every model of the path"""
    c = _const(x)
    if c is not None or not _isinstance(x, SInt):
        return c
    eng = _eng()
    if eng._check() != z3.sat:
        return None
    v = eng.solver.model().eval(x.e, model_completion=True)
    if not z3.is_int_value(v):
        return None
    v = v.as_long()
    if eng._check(x.e != v) != z3.unsat:
        return None
    e = x.e
    if eng.fixed:
        e = eng._subst(e)
    eng._learn_eq(z3.simplify(e), v)
    return v


def _si(x):
    """normalise: int stays int, SInt collapses to int when constant"""
    if x.__class__ is _int:
        return x
    c = _const(x)
    return x if c is None else c


class Gap:
    """marker element standing for the octets [lo, hi) of an opaque payload in element lists handed to ideal functions"""
    __slots__ = ('blob', 'lo', 'hi')

    def __init__(self, blob, lo=0, hi=None):
        self.blob = blob
        self.lo = lo
        self.hi = blob.n if hi is None else hi

    def same(self, o):
        return (o.__class__ is Gap and o.blob is self.blob and z3.eq(z3.simplify(_e(self.lo)), z3.simplify(_e(o.lo)))
                and z3.eq(z3.simplify(_e(self.hi)), z3.simplify(_e(o.hi))))

    def eq_formula(self, o):
        if o.__class__ is not Gap or o.blob is not self.blob:
            return z3.BoolVal(False)
        return z3.And(_e(self.lo) == _e(o.lo), _e(self.hi) == _e(o.hi))


class EBlob:
    """opaque payload of symbolic length n (read-only bytes flavour)"""
    kind = 'bytes'
    readonly = True

    def __init__(self, n, name):
        self.n = n
        self.name = name
        self.arr = z3.Array('elastic!' + name, z3.IntSort(), z3.IntSort())

    def __slen__(self):
        return _si(self.n)

    def byte(self, i):
        """content octet i.  An octet read at a constant index becomes a declared input of the path (so that the
        native replay runs on a payload with exactly the octet values of the model); others are Select terms."""
        c = _const(i)
        if c is None:
            return SInt(z3.Select(self.arr, _e(i)))
        eng = _eng()
        nm = '%s@%d' % (self.name, c)
        v = eng.inputs.get(nm)
        if v is None:
            v = z3.Int(nm)
            eng.solver.add(v >= 0, v <= 255, z3.Select(self.arr, c) == v)
            eng.inputs[nm] = v
        return SInt(v)

    def __len__(self):
        raise HarnessError('len() of an elastic payload outside shimmed code')

    def __bool__(self):
        return bool(self.n > 0)

    def __getitem__(self, i):
        if _isinstance(i, slice):
            raise HarnessError('slice of an elastic payload')
        if i < 0:
            i = i + self.n
        if i < 0 or i >= self.n:
            raise IndexError('index out of range')
        return self.byte(i)

    def __eq__(self, o):
        if o is self:
            return True
        if _isinstance(o, EView):
            return o.__eq__(self)
        return NotImplemented

    __hash__ = None

    def __repr__(self):
        return 'EBlob(%s)' % self.name


class EBuf:
    def __init__(self, total):
        self.total = total          # SInt
        self.pre = []               # head octets, grown on demand (zero filled like a bytearray)
        self.P = None               # start of the gap once the blob has been placed
        self.blob = None
        self.post = None            # tail octets (list) once the blob has been placed

    # -- location of a position ------------------------------------------------------------------
    def locate(self, x):
        """('pre', i) | ('post', i) | ('gap', SInt/int offset into the blob) for an *element* position x"""
        c = _const(x)
        if self.P is None:
            if c is None:
                c = _eng().concretize(_e(x))
            return 'pre', c
        if c is not None and c < self.P:
            return 'pre', c
        n = self.blob.n
        k = _const(x - n)
        if k is None and c is None:
            k = _const_s(x - n)
        if k is not None and k >= self.P:
            return 'post', k - self.P
        # solver-decided case split
        if x < self.P:
            return 'pre', _eng().concretize(_e(x))
        if x >= n + self.P:
            return 'post', _eng().concretize(_e(x - n)) - self.P
        return 'gap', x - self.P

    def _grow(self, i):
        if i >= _len(self.pre):
            self.pre.extend([0] * (i + 1 - _len(self.pre)))

    def get(self, x):
        r, i = self.locate(x)
        if r == 'pre':
            self._grow(i)
            return self.pre[i]
        if r == 'post':
            if i >= _len(self.post):
                raise IndexError('index out of range')
            return self.post[i]
        return self.blob.byte(i)

    def put(self, x, v):
        r, i = self.locate(x)
        if r == 'pre':
            self._grow(i)
            self.pre[i] = v
        elif r == 'post':
            if i >= _len(self.post):
                raise IndexError('index out of range')
            self.post[i] = v
        else:
            raise HarnessError('elastic: write into the opaque payload region')

    def place(self, lo, hi, blob):
        P = _const(lo)
        if P is None or self.P is not None:
            raise HarnessError('elastic: second or unaligned opaque region')
        d = _const(hi - lo - blob.n)
        if d is None:
            if not (hi - lo == blob.n):
                raise ValueError('memoryview assignment: lvalue and rvalue have different structures')
        elif d != 0:
            raise ValueError('memoryview assignment: lvalue and rvalue have different structures')
        tail = _const(self.total - blob.n - P)
        if tail is None or tail < 0:
            raise HarnessError('elastic: tail length is not constant on this path')
        self._grow(P - 1) if P > 0 else None
        del self.pre[P:]
        self.P = P
        self.blob = blob
        self.post = [0] * tail

    def region(self, x):
        """for a *boundary* position x (0..total): ('pre', c) | ('post', c) | None (inside / unknown)"""
        c = _const(x)
        if self.P is None:
            return ('pre', c) if c is not None else None
        if c is not None and c <= self.P:
            return 'pre', c
        k = _const(x - self.blob.n)
        if k is None and c is None:
            k = _const_s(x - self.blob.n)
        if k is not None and k >= self.P:
            return 'post', k - self.P
        return None


class EView:
    """bytearray / memoryview window [a, b) on an EBuf (a, b: int or SInt, buffer coordinates)"""
    __slots__ = ('buf', 'a', 'b', 'kind', 'readonly')

    def __init__(self, buf, a, b, kind='memoryview', readonly=False):
        self.buf = buf
        self.a = _si(a)
        self.b = _si(b)
        self.kind = kind
        self.readonly = readonly

    def __slen__(self):
        return _si(self.b - self.a)

    def __len__(self):
        n = self.__slen__()
        if n.__class__ is _int:
            return n
        raise HarnessError('len() of an elastic buffer outside shimmed code')

    def __bool__(self):
        return bool(self.__slen__() > 0)

    def _pos(self, i, default):
        """slice bound -> window-relative position, clamped like CPython clamps"""
        n = self.__slen__()
        if i is None:
            return default
        if not _isinstance(i, SInt):
            i = i.__index__()
        if i < 0:
            i = i + n
            if i < 0:
                return 0
        if i > n:
            return n
        return i

    def _slice(self, s):
        if s.step not in (None, 1):
            raise NotImplementedError('EView step slice')
        lo = self._pos(s.start, 0)
        hi = self._pos(s.stop, self.__slen__())
        if hi < lo:
            hi = lo
        return _si(self.a + lo), _si(self.a + hi)

    def _window(self, lo, hi, kind, readonly, share):
        buf = self.buf
        rl = buf.region(lo)
        rh = buf.region(hi)
        if rl is not None and rh is not None and rl[0] == rh[0]:
            if rl[0] == 'pre':
                if buf.P is None:
                    buf._grow(rh[1] - 1) if rh[1] > 0 else None
                store = buf.pre
            else:
                store = buf.post
            if share:
                return SBytes(store, rl[1], rh[1], kind, readonly)
            return SBytes(store[rl[1]:rh[1]], kind=kind)
        if not share:
            raise HarnessError('elastic: copy of a window that contains the opaque region')
        return EView(buf, lo, hi, kind, readonly)

    def __getitem__(self, i):
        if _isinstance(i, slice):
            lo, hi = self._slice(i)
            if self.kind == 'memoryview':
                return self._window(lo, hi, 'memoryview', self.readonly, True)
            return self._window(lo, hi, self.kind, False, False)
        n = self.__slen__()
        if not _isinstance(i, SInt):
            i = i.__index__()
        if i < 0:
            i = i + n
        if i < 0 or i >= n:
            raise IndexError('index out of range')
        return self.buf.get(self.a + i)

    def __setitem__(self, i, v):
        if self.readonly:
            raise TypeError('cannot modify read-only memory')
        if _isinstance(i, slice):
            lo, hi = self._slice(i)
            if _isinstance(v, EBlob):
                self.buf.place(lo, hi, v)
                return
            if _isinstance(v, EView):
                self._copy_from(lo, hi, v)
                return
            vals = v.items() if _isinstance(v, SBytes) else list(v)
            ln = _const(hi - lo)
            if ln is None:
                raise HarnessError('elastic: slice assignment of symbolic length')
            if ln != _len(vals):
                raise ValueError('memoryview assignment: lvalue and rvalue have different structures')
            for k, x in enumerate(vals):
                self.buf.put(lo + k, x)
            return
        n = self.__slen__()
        if not _isinstance(i, SInt):
            i = i.__index__()
        if i < 0:
            i = i + n
        if i < 0 or i >= n:
            raise IndexError('index out of range')
        if not _isinstance(v, SInt):
            v = v.__index__()
            if not 0 <= v <= 255:
                raise ValueError('byte must be in range(0, 256)')
        self.buf.put(self.a + i, v)

    def _copy_from(self, lo, hi, src):
        """slice assignment from a window of ANOTHER elastic buffer that contains that buffer's whole payload: the head
        and tail octets are copied, the payload is placed (it stays the same opaque object)"""
        sb = src.buf
        if sb is self.buf or sb.P is None:
            raise HarnessError('elastic: unsupported copy between elastic windows')
        rl = sb.region(src.a)
        rh = sb.region(src.b)
        if rl is None or rh is None or rl[0] != 'pre' or rh[0] != 'post':
            raise HarnessError('elastic: copy of a window that cuts the opaque region')
        d = _const_s(_si((hi - lo) - (src.b - src.a)))
        if d is None:
            if not ((hi - lo) == (src.b - src.a)):
                raise ValueError('memoryview assignment: lvalue and rvalue have different structures')
        elif d != 0:
            raise ValueError('memoryview assignment: lvalue and rvalue have different structures')
        head = sb.pre[rl[1]:sb.P]
        tail = sb.post[0:rh[1]]
        c = _const(lo)
        if c is None:
            raise HarnessError('elastic: copy to a symbolic offset')
        for k, x in enumerate(head):
            self.buf.put(c + k, x)
        g = c + _len(head)
        self.buf.place(g, g + sb.blob.n, sb.blob)
        for k, x in enumerate(tail):
            self.buf.post[k] = x

    # -- whole-window helpers ------------------------------------------------------------------
    def covers_blob(self):
        """SBool/bool: the window is exactly the opaque region"""
        buf = self.buf
        if buf.P is None:
            return False
        return SBool(z3.And(_e(self.a) == buf.P, _e(self.b) - _e(self.a) == _e(buf.blob.n)))

    def elements(self):
        """element list for ideal functions: head octets, a Gap marker with its bounds, tail octets"""
        buf = self.buf
        rl = buf.region(self.a)
        rh = buf.region(self.b)
        if buf.P is None:
            if rl is None or rh is None:
                raise HarnessError('elastic: window with symbolic bounds before the payload was placed')
            buf._grow(rh[1] - 1) if rh[1] > 0 else None
            return list(buf.pre[rl[1]:rh[1]])
        if rl is not None and rh is not None and rl[0] == rh[0]:
            store = buf.pre if rl[0] == 'pre' else buf.post
            return list(store[rl[1]:rh[1]])
        out = []
        if rl is not None and rl[0] == 'pre':
            out.extend(buf.pre[rl[1]:buf.P])
            glo = 0
        elif rl is not None:
            raise HarnessError('elastic: window starts behind its end')
        else:
            glo = _si(self.a - buf.P)
        if rh is not None and rh[0] == 'post':
            ghi = buf.blob.n
            tail = buf.post[0:rh[1]]
        elif rh is not None:
            raise HarnessError('elastic: window ends before its start')
        else:
            ghi = _si(self.b - buf.P)
            tail = []
        out.append(Gap(buf.blob, glo, ghi))
        out.extend(tail)
        return out

    def __eq__(self, o):
        if _isinstance(o, EBlob):
            if o is not self.buf.blob:
                raise HarnessError('elastic: comparison with a foreign payload')
            return self.covers_blob()
        if _isinstance(o, EView):
            if o.buf is self.buf:
                return SBool(z3.And(_e(self.a) == _e(o.a), _e(self.b) == _e(o.b)))
            raise HarnessError('elastic: comparison of two elastic buffers')
        n = self.__slen__()
        if n.__class__ is _int:
            return SBytes([self[i] for i in range(n)]) == o
        raise HarnessError('elastic: comparison of a symbolic-length window with a byte string')

    def __ne__(self, o):
        r = self.__eq__(o)
        if _isinstance(r, SBool):
            return ~r
        return not r

    __hash__ = None

    def __iter__(self):
        n = self.__slen__()
        if n.__class__ is not _int:
            raise HarnessError('elastic: iteration over a symbolic-length window')
        for i in range(n):
            yield self[i]

    def tobytes(self):
        raise HarnessError('elastic: tobytes() of a window that contains the opaque region')

    def release(self):
        pass

    def toreadonly(self):
        return EView(self.buf, self.a, self.b, 'memoryview', True)

    @property
    def nbytes(self):
        return self.__slen__()

    @property
    def obj(self):
        return self

    def __repr__(self):
        return 'EView[%s:%s]' % (self.a, self.b)


class EMsg:
    """the concatenation of byte strings of which at least one contains an opaque region (``b''.join(parts)``): an
    element list with Gap markers, good for being hashed / signed by the ideal functions and nothing else"""
    kind = 'bytes'
    readonly = True

    def __init__(self, els):
        self.els = els

    def elements(self):
        return list(self.els)

    def __len__(self):
        raise HarnessError('len() of a joined elastic message')


def join(sep, parts):
    out = []
    for i, p in enumerate(parts):
        if i:
            out.extend(sep)
        if _isinstance(p, (EView, EMsg)):
            out.extend(p.elements())
        elif _isinstance(p, EBlob):
            out.append(Gap(p))
        elif _isinstance(p, SBytes):
            out.extend(p.items())
        else:
            out.extend(bytes(p))
    return EMsg(out)


def alloc(total):
    """bytearray(total) for a non-constant symbolic total"""
    buf = EBuf(total)
    return EView(buf, 0, total, 'bytearray', False)


core._EVIEW[:] = [EView, alloc, EBlob, EMsg, join]


def buffer_from(pre, blob, post, kind='memoryview'):
    """a read-only buffer  pre | <opaque payload> | post  built by a harness (its own writer), for decoders"""
    n = blob.n
    buf = EBuf(_si(n + (_len(pre) + _len(post))))
    buf.pre = list(pre)
    buf.P = _len(pre)
    buf.blob = blob
    buf.post = list(post)
    return EView(buf, 0, buf.total, kind, True)
