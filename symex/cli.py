import argparse
import os
import sys


def main():
    ap = argparse.ArgumentParser()
    ap.add_argument('prop', nargs='?')
    ap.add_argument('tier', nargs='?', default=os.environ.get('VERIF_TIER', 'quick'))
    ap.add_argument('--replay')
    ap.add_argument('--only')
    ap.add_argument('-j', '--jobs', type=int)
    ap.add_argument('-v', '--verbose', action='store_true')
    a = ap.parse_args()
    from symex import runner
    if a.replay:
        sys.exit(runner.replay_file(a.replay))
    if not a.prop:
        ap.error('property id required')
    seed = int(os.environ.get('VERIF_SEED', '0') or 0)
    sys.exit(runner.run_property(a.prop.upper(), a.tier, seed, a.only, a.jobs, a.verbose))


if __name__ == '__main__':
    main()
